#!/usr/bin/env python3
"""tools_fill_sigs.py <regress.log>: writes the signatures a regress.sh run reported into seeded/*/meta.json
(check_result of the change's own property) and prints the changes the run missed."""
import sys, json, re, os
for line in open(sys.argv[1]):
    m = re.match(r"seeded-(\S+) (C\d\d) (caught|MISSED|INVALID\S*|TROUBLE\S*)\s*(.*)", line.strip())
    if not m:
        continue
    name, prop, res, rest = m.groups()
    p = f"/verif/seeded/{name}/meta.json"
    if not os.path.exists(p):
        continue
    d = json.load(open(p))
    cr = d.setdefault("check_result", {})
    if res == "caught":
        sigs = re.findall(r"violation (\S+)", rest)
        cr[prop] = {"rc": 1, "signatures": sigs}
    elif res == "MISSED":
        print("missed by the quick tier of its own check:", name)
        if not any(v.get("rc") == 1 for k, v in cr.items() if k != prop):
            cr[prop] = {"rc": 0, "signatures": []}
    json.dump(d, open(p, "w"), indent=1)
