// Command verif is driver and worker of the deterministic-simulation checks.
//
//	verif run <PROP> <quick|thorough>     driver: workers -> aggregate -> minimise -> evidence -> exit code
//	verif replay <file>                   re-execute a replay file; exit 1 + VIOLATION if it reproduces
//	verif selftest <PROP> [n]             determinism self-test (same seed, different processes / GOMAXPROCS)
//	verif worker ...                      internal
//	verif exec <PROP> <tier>              internal: run one trace given on stdin, print the signature
package main

import (
	"bufio"
	"encoding/json"
	"flag"
	"fmt"
	"os"
	"os/exec"
	"path/filepath"
	"runtime"
	"sort"
	"strconv"
	"strings"
	"sync"
	"time"

	"verif/props"
	"verif/sim"
)

func verifDir() string {
	if d := os.Getenv("VERIF_DIR"); d != "" {
		return d
	}
	return "/verif"
}

// outDir is where evidence and replay files go (VERIF_OUT lets sensitivity runs against
// deliberately broken trees write elsewhere than the committed evidence).
func outDir() string {
	if d := os.Getenv("VERIF_OUT"); d != "" {
		return d
	}
	return verifDir()
}

func main() {
	if len(os.Args) < 2 {
		fmt.Fprintln(os.Stderr, "usage: verif run|replay|selftest|worker|exec ...")
		os.Exit(2)
	}
	switch os.Args[1] {
	case "run":
		os.Exit(driver(os.Args[2:]))
	case "worker":
		worker(os.Args[2:])
	case "replay":
		os.Exit(replay(os.Args[2:]))
	case "exec":
		execOne(os.Args[2:])
	case "selftest":
		os.Exit(selftest(os.Args[2:]))
	case "digest":
		digest(os.Args[2:])
	default:
		fmt.Fprintln(os.Stderr, "unknown subcommand", os.Args[1])
		os.Exit(2)
	}
}

// ---------------------------------------------------------------------------------------
// records exchanged between worker and driver

type violRec struct {
	Run       int      `json:"run"`
	RunSeed   uint64   `json:"run_seed"`
	Class     string   `json:"class"`
	Signature string   `json:"signature"`
	Detail    string   `json:"detail"`
	Choices   []int    `json:"choices"`
	OrigLen   int      `json:"original_len"`
	Minimised bool     `json:"minimised"`
	Shrink    string   `json:"shrink,omitempty"`
	Events    []string `json:"events"`
	// History: the violation did not reproduce from its own trace in a fresh process: it depends on what
	// the same worker process executed before it (process-wide state in the library). Replay then
	// re-executes the worker's earlier runs (shard Shard of Of, same seed and tier) up to this run.
	History bool `json:"history,omitempty"`
	Shard   int  `json:"shard,omitempty"`
	Of      int  `json:"of,omitempty"`
}

type doneRec struct {
	Evaluations int            `json:"evaluations"`
	Extra       map[string]int `json:"extra"`
	Probes      map[string]int `json:"probes"`
	Faults      map[string]int `json:"faults"`
	Nontriv     []uint64       `json:"nontriv"`
	AllCases    []uint64       `json:"all"`
	SimTime     float64        `json:"sim_time"`
	Samples     []sample       `json:"samples"`
	Digests     map[int]string `json:"digests,omitempty"`
	WallS       float64        `json:"wall_s"`
	Stopped     string         `json:"stopped"`
}

type sample struct {
	Run    int      `json:"run"`
	Seed   uint64   `json:"run_seed"`
	Events []string `json:"events"`
	Extra  any      `json:"detail,omitempty"`
}

type msg struct {
	T    string   `json:"t"`
	I    int      `json:"i,omitempty"`
	Viol *violRec `json:"viol,omitempty"`
	Done *doneRec `json:"done,omitempty"`
}

// ---------------------------------------------------------------------------------------
// worker

func worker(args []string) {
	fs := flag.NewFlagSet("worker", flag.ExitOnError)
	prop := fs.String("prop", "", "")
	tier := fs.String("tier", "quick", "")
	seed := fs.Uint64("seed", 1, "")
	shard := fs.Int("shard", 0, "")
	of := fs.Int("of", 1, "")
	runs := fs.Int("runs", 100, "")
	wall := fs.Duration("wall", time.Minute, "")
	maxViol := fs.Int("maxviol", 4, "")
	fs.Parse(args)
	eng := props.Engines[*prop]
	if eng == nil {
		fmt.Fprintln(os.Stderr, "no engine for", *prop)
		os.Exit(2)
	}
	out := bufio.NewWriter(os.NewFile(uintptr(dupStdout()), "report"))
	props.Silence()
	defer props.CleanupScratch()
	if !sim.RaceEnabled {
		limitAddressSpace(6 << 30)
	}
	if *prop == "C19" {
		limitOpenFiles(96)
	}
	emit := func(m msg) {
		b, _ := json.Marshal(m)
		out.Write(b)
		out.WriteByte('\n')
		out.Flush()
	}
	start := time.Now()
	done := &doneRec{Extra: map[string]int{}, Probes: map[string]int{}, Faults: map[string]int{}, Digests: map[int]string{}}
	nontriv := map[uint64]bool{}
	all := map[uint64]bool{}
	sigSeen := map[string]int{}
	var cur struct {
		sync.Mutex
		i     int
		since time.Time
	}
	// watchdog: a run that makes no progress for 60 s is reported and the worker exits
	go func() {
		lastBeats, lastChange := sim.Beats(), time.Now()
		for {
			time.Sleep(2 * time.Second)
			cur.Lock()
			i, since := cur.i, cur.since
			cur.Unlock()
			if b := sim.Beats(); b != lastBeats || since.IsZero() {
				lastBeats, lastChange = b, time.Now()
				continue
			}
			// the harness heartbeat has stood still for a minute inside a run: a call into the library hangs
			if time.Since(lastChange) > 60*time.Second {
				emit(msg{T: "hang", I: i})
				props.CleanupScratch()
				os.Exit(3)
			}
		}
	}()
	stopped := "runs"
	for i := *shard; i < *runs; i += *of {
		if time.Since(start) > *wall {
			stopped = "wall"
			break
		}
		cur.Lock()
		cur.i, cur.since = i, time.Now()
		cur.Unlock()
		// announce the run (a short raw line; a worker that dies of a fatal runtime error is attributed to it)
		fmt.Fprintf(out, "s %d\n", i)
		out.Flush()
		rs := sim.RunSeed(*seed, eng.Name, i)
		t := sim.NewT(rs)
		v := runGuarded(eng, t, *tier)
		cur.Lock()
		cur.since = time.Time{}
		cur.Unlock()
		done.Evaluations++
		for k, n := range t.Extra {
			done.Extra[k] += n
		}
		for k, n := range t.Probes {
			done.Probes[k] += n
		}
		for k, n := range t.Faults {
			done.Faults[k] += n
		}
		done.SimTime += t.SimTime
		if t.Case != 0 {
			all[t.Case] = true
			if t.Nontriv {
				nontriv[t.Case] = true
			}
		}
		for _, c := range t.Cases {
			nontriv[c] = true
			all[c] = true
		}
		if t.Digest != "" {
			done.Digests[i] = t.Digest
		}
		if v == nil && t.Nontriv && len(done.Samples) < 3 {
			done.Samples = append(done.Samples, sample{Run: i, Seed: rs, Events: clipEvents(t.Events, 60), Extra: t.Sample})
		}
		if v != nil {
			sigSeen[v.Signature]++
			if sigSeen[v.Signature] > 1 {
				continue // one minimised report per signature per worker
			}
			rec := &violRec{Run: i, RunSeed: rs, Class: v.Class, Signature: v.Signature, Detail: v.Detail, Choices: t.Trace, OrigLen: len(t.Trace), Events: t.Events}
			if eng.Race && v.Class == "data-race" {
				// every candidate runs in its own process (ThreadSanitizer reports a given race once per process)
				budget := 40
				if *tier == "thorough" {
					budget = 200
				}
				deadline := time.Now().Add(60 * time.Second)
				var lastEvents []string
				var lastDetail string
				ex := func(ch []int) (string, []int) {
					if time.Now().After(deadline) {
						return "", nil
					}
					sig, used, events, detail := subExec(eng, *prop, *tier, ch)
					if sig == v.Signature {
						lastEvents, lastDetail = events, detail
					}
					return sig, used
				}
				// confirm the original first
				if sig, used := ex(t.Trace); sig == v.Signature {
					min, st := sim.Shrink(used, v.Signature, ex, budget)
					if sig2, used2 := ex(min); sig2 == v.Signature {
						rec.Choices = used2
						rec.Events = lastEvents
						rec.Detail = lastDetail
						rec.Minimised = true
						rec.Shrink = fmt.Sprintf("%d sub-process candidates, %d accepted", st.Candidates, st.Accepted)
					}
				} else {
					rec.Shrink = "not reproduced in a fresh process (signature " + sig + ")"
				}
			} else if !strings.Contains(v.Class, "noshrink") {
				budget := 300
				if *tier == "thorough" {
					budget = 1500
				}
				deadline := time.Now().Add(45 * time.Second)
				ex := func(ch []int) (string, []int) {
					if time.Now().After(deadline) {
						return "", nil
					}
					t2 := sim.NewReplayT(ch)
					t2.Confirm = false
					v2 := runGuarded(eng, t2, *tier)
					if v2 == nil {
						return "", t2.Trace
					}
					return v2.Signature, t2.Trace
				}
				min, st := sim.Shrink(t.Trace, v.Signature, ex, budget)
				t3 := sim.NewReplayT(min)
				t3.Confirm = false
				v3 := runGuarded(eng, t3, *tier)
				if v3 != nil && v3.Signature == v.Signature {
					rec.Choices = trimZeros(t3.Trace)
					rec.Events = t3.Events
					rec.Detail = v3.Detail
					rec.Minimised = true
					rec.Shrink = fmt.Sprintf("%d candidates, %d accepted", st.Candidates, st.Accepted)
				}
			}
			rec.Shard, rec.Of = *shard, *of
			if !(eng.Race && v.Class == "data-race") && v.Class != "harness" {
				// does the (minimised) trace reproduce on its own in a fresh process?
				if sig, _, _, _ := subExec(eng, *prop, *tier, rec.Choices); sig != v.Signature {
					if sig2, used2, ev2, det2 := subExec(eng, *prop, *tier, t.Trace); sig2 == v.Signature {
						rec.Choices, rec.Events, rec.Detail, rec.Minimised = used2, ev2, det2, false
						rec.Shrink += " (the minimised trace only fails in the warm worker; the original trace reproduces in a fresh process)"
					} else {
						rec.History = true
						rec.Choices, rec.Events, rec.Detail, rec.Minimised = t.Trace, t.Events, v.Detail, false
						rec.Shrink += " (does not reproduce from its own trace in a fresh process: depends on the runs this worker executed before it; replay re-executes them)"
					}
				}
			} else if eng.Race && v.Class == "data-race" && !rec.Minimised {
				rec.History = true
			}
			emit(msg{T: "viol", Viol: rec})
			if len(sigSeen) >= *maxViol {
				stopped = "maxviol"
				break
			}
		}
	}
	for h := range nontriv {
		done.Nontriv = append(done.Nontriv, h)
	}
	for h := range all {
		done.AllCases = append(done.AllCases, h)
	}
	done.WallS = time.Since(start).Seconds()
	done.Stopped = stopped
	emit(msg{T: "done", Done: done})
	sim.RaceLogCleanup()
}

// trimZeros drops trailing zeros (a replay feeds zeros once the recorded choices are exhausted).
func trimZeros(c []int) []int {
	n := len(c)
	for n > 0 && c[n-1] == 0 {
		n--
	}
	return c[:n]
}

func clipEvents(ev []string, n int) []string {
	if len(ev) <= n {
		return ev
	}
	out := append([]string(nil), ev[:n]...)
	return append(out, fmt.Sprintf("... (%d more events)", len(ev)-n))
}

// runGuarded runs the engine; a panic escaping the engine itself (outside its own guards) is a
// harness failure, reported as such.
func runGuarded(eng *props.Engine, t *sim.T, tier string) (v *sim.Violation) {
	defer func() {
		if r := recover(); r != nil {
			if _, ok := r.(sim.BudgetExceeded); ok && t.Replaying {
				v = nil
				return
			}
			msg := fmt.Sprint(r)
			if strings.HasPrefix(msg, "harness:") {
				fmt.Fprintln(os.Stderr, "HARNESS FAILURE:", msg)
				props.CleanupScratch()
				os.Exit(4)
			}
			buf := make([]byte, 8192)
			buf = buf[:runtime.Stack(buf, false)]
			fmt.Fprintf(os.Stderr, "HARNESS FAILURE: unexpected panic in engine %s: %v\n%s\n", eng.Name, r, buf)
			props.CleanupScratch()
			os.Exit(4)
		}
	}()
	return eng.Run(t, tier)
}

// ---------------------------------------------------------------------------------------
// known findings

type finding struct {
	status, prop, sig, text string
}

func loadFindings() []finding {
	b, err := os.ReadFile(filepath.Join(verifDir(), "known_findings.txt"))
	if err != nil {
		return nil
	}
	var out []finding
	for _, line := range strings.Split(string(b), "\n") {
		line = strings.TrimSpace(line)
		if line == "" || strings.HasPrefix(line, "#") {
			continue
		}
		f := finding{}
		switch {
		case strings.HasPrefix(line, "known:"):
			f.status = "known"
			line = strings.TrimSpace(strings.TrimPrefix(line, "known:"))
		case strings.HasPrefix(line, "fixed:"):
			f.status = "fixed"
			line = strings.TrimSpace(strings.TrimPrefix(line, "fixed:"))
		default:
			continue
		}
		for _, tok := range strings.Fields(line) {
			if strings.HasPrefix(tok, "property=") {
				f.prop = strings.TrimPrefix(tok, "property=")
			}
			if strings.HasPrefix(tok, "signature=") {
				f.sig = strings.TrimPrefix(tok, "signature=")
			}
		}
		f.text = line
		out = append(out, f)
	}
	return out
}

// ---------------------------------------------------------------------------------------
// driver

func driver(args []string) int {
	if len(args) < 2 {
		fmt.Fprintln(os.Stderr, "usage: verif run <PROP> <quick|thorough>")
		return 2
	}
	prop, tier := args[0], args[1]
	eng := props.Engines[prop]
	if eng == nil {
		fmt.Fprintln(os.Stderr, "no engine for", prop)
		return 2
	}
	seed := uint64(1)
	if s := os.Getenv("VERIF_SEED"); s != "" {
		if v, err := strconv.ParseUint(s, 10, 64); err == nil {
			seed = v
		} else if v, err := strconv.ParseInt(s, 10, 64); err == nil {
			seed = uint64(v)
		}
	}
	runs, wall := eng.Budget(tier)
	if s := os.Getenv("VERIF_RUNS"); s != "" {
		if v, err := strconv.Atoi(s); err == nil {
			runs = v
		}
	}
	if s := os.Getenv("VERIF_WALL"); s != "" {
		if v, err := time.ParseDuration(s); err == nil {
			wall = v
		}
	}
	nw := runtime.NumCPU()
	if nw > 16 {
		nw = 16
	}
	if s := os.Getenv("VERIF_WORKERS"); s != "" {
		if v, err := strconv.Atoi(s); err == nil && v > 0 {
			nw = v
		}
	}
	removeStaleScratch()
	fmt.Fprintf(os.Stderr, "[verif] property=%s engine=%s tier=%s seed=%d runs<=%d wall<=%s workers=%d\n", prop, eng.Name, tier, seed, runs, wall, nw)
	start := time.Now()
	self, _ := os.Executable()

	type wres struct {
		viols  []*violRec
		done   *doneRec
		hang   int
		exit   int
		stderr string
		lastI  int
	}
	results := make([]*wres, nw)
	var wg sync.WaitGroup
	for w := 0; w < nw; w++ {
		wg.Add(1)
		go func(w int) {
			defer wg.Done()
			res := &wres{hang: -1, lastI: -1}
			results[w] = res
			cmd := exec.Command(self, "worker", "-prop", prop, "-tier", tier, "-seed", fmt.Sprint(seed), "-shard", fmt.Sprint(w), "-of", fmt.Sprint(nw), "-runs", fmt.Sprint(runs), "-wall", wall.String())
			cmd.Env = append(os.Environ(), workerEnv(eng, w)...)
			stdout, _ := cmd.StdoutPipe()
			var errb strings.Builder
			cmd.Stderr = &errb
			if err := cmd.Start(); err != nil {
				res.exit = 2
				res.stderr = err.Error()
				return
			}
			sc := bufio.NewScanner(stdout)
			sc.Buffer(make([]byte, 1<<20), 1<<28)
			for sc.Scan() {
				var m msg
				if line := sc.Bytes(); len(line) > 2 && line[0] == 's' && line[1] == ' ' {
					if v, err := strconv.Atoi(string(line[2:])); err == nil {
						res.lastI = v
					}
					continue
				}
				if err := json.Unmarshal(sc.Bytes(), &m); err != nil {
					continue
				}
				switch m.T {
				case "start":
					res.lastI = m.I
				case "viol":
					res.viols = append(res.viols, m.Viol)
				case "hang":
					res.hang = m.I
				case "done":
					res.done = m.Done
				}
			}
			err := cmd.Wait()
			if err != nil {
				if ee, ok := err.(*exec.ExitError); ok {
					res.exit = ee.ExitCode()
				} else {
					res.exit = 2
				}
			}
			res.stderr = errb.String()
		}(w)
	}
	wg.Wait()

	// aggregate
	agg := &doneRec{Extra: map[string]int{}, Probes: map[string]int{}, Faults: map[string]int{}, Digests: map[int]string{}}
	nontriv := map[uint64]bool{}
	all := map[uint64]bool{}
	var viols []*violRec
	harnessTrouble := ""
	for w, r := range results {
		if r.hang >= 0 {
			viols = append(viols, &violRec{Run: r.hang, RunSeed: sim.RunSeed(seed, eng.Name, r.hang), Class: "non-termination", Signature: prop + ":non-termination", Detail: "a run made no progress for 60 s (watchdog)", Choices: nil})
			continue
		}
		if r.exit != 0 || r.done == nil {
			extra := postMortem(eng, prop, seed, r.lastI, r.exit, r.stderr)
			if extra != nil {
				viols = append(viols, extra)
			} else {
				harnessTrouble = fmt.Sprintf("worker %d exited with %d: %s", w, r.exit, sim.Clip(r.stderr, 2000))
			}
		}
		viols = append(viols, r.viols...)
		if r.done == nil {
			continue
		}
		agg.Evaluations += r.done.Evaluations
		for k, n := range r.done.Extra {
			agg.Extra[k] += n
		}
		for k, n := range r.done.Probes {
			agg.Probes[k] += n
		}
		for k, n := range r.done.Faults {
			agg.Faults[k] += n
		}
		for _, h := range r.done.Nontriv {
			nontriv[h] = true
		}
		for _, h := range r.done.AllCases {
			all[h] = true
		}
		for i, d := range r.done.Digests {
			agg.Digests[i] = d
		}
		agg.SimTime += r.done.SimTime
		if len(agg.Samples) < 4 {
			agg.Samples = append(agg.Samples, r.done.Samples...)
		}
	}
	if len(agg.Samples) > 4 {
		agg.Samples = agg.Samples[:4]
	}
	if harnessTrouble != "" {
		fmt.Fprintln(os.Stderr, "[verif] HARNESS TROUBLE:", harnessTrouble)
		return 2
	}
	// engine-specific post-processing by the driver (cross-process digests for C06)
	if hook := driverHooks[prop]; hook != nil {
		more, err := hook(eng, tier, seed, runs, agg)
		if err != nil {
			fmt.Fprintln(os.Stderr, "[verif] HARNESS TROUBLE:", err)
			return 2
		}
		viols = append(viols, more...)
	}

	sort.SliceStable(viols, func(a, b int) bool { return viols[a].Run < viols[b].Run })
	findings := loadFindings()
	reportedKnown := map[string]bool{}
	newSigs := map[string]bool{}
	exit := 0
	nViol := 0
	os.MkdirAll(filepath.Join(outDir(), "replays"), 0o755)
	for _, v := range viols {
		known := false
		for _, f := range findings {
			if f.status == "known" && f.prop == prop && f.sig == v.Signature {
				known = true
				if !reportedKnown[f.sig] {
					reportedKnown[f.sig] = true
					fmt.Printf("KNOWN-FINDING: property=%s %s\n", prop, strings.TrimSpace(strings.Replace(f.text, "property="+prop, "", 1)))
				}
			}
		}
		if known {
			continue
		}
		nViol++
		if newSigs[v.Signature] {
			continue
		}
		newSigs[v.Signature] = true
		path := filepath.Join(outDir(), "replays", fmt.Sprintf("%s-%d-%d.json", prop, seed, v.Run))
		writeReplay(path, prop, eng.Name, tier, seed, v)
		fmt.Fprintf(os.Stderr, "[verif] violation %s (run %d): %s\n", v.Signature, v.Run, sim.Clip(v.Detail, 600))
		fmt.Printf("VIOLATION property=%s replay=%s\n", prop, path)
		exit = 1
	}
	wallS := time.Since(start).Seconds()
	if err := writeEvidence(eng, prop, tier, seed, agg, len(nontriv), len(all), nViol, wallS, nw); err != nil {
		fmt.Fprintln(os.Stderr, "[verif] cannot write evidence:", err)
		return 2
	}
	if tier == "thorough" {
		for _, p := range eng.MandatoryProbes {
			if agg.Probes[p] == 0 {
				fmt.Fprintf(os.Stderr, "[verif] warning: probe %q stayed at 0 (reach problem, not a verdict)\n", p)
			}
		}
	}
	fmt.Fprintf(os.Stderr, "[verif] %s %s: %d evaluations, %d distinct non-trivial, %d violations, %.1fs\n", prop, tier, agg.Evaluations, len(nontriv), nViol, wallS)
	return exit
}

// removeStaleScratch deletes scratch directories and race logs that a killed worker of an earlier
// invocation left behind (older than 30 minutes, so that concurrent invocations are not disturbed).
func removeStaleScratch() {
	for _, base := range []string{"/dev/shm", os.TempDir()} {
		for _, pat := range []string{"verif-c19-*", "verif-race-*"} {
			matches, _ := filepath.Glob(filepath.Join(base, pat))
			for _, m := range matches {
				if st, err := os.Stat(m); err == nil && time.Since(st.ModTime()) > 30*time.Minute {
					os.RemoveAll(m)
				}
			}
		}
	}
}

func workerEnv(eng *props.Engine, w int) []string {
	env := []string{"GOMAXPROCS=2"}
	if eng.Race {
		logp := filepath.Join(os.TempDir(), fmt.Sprintf("verif-race-%d-%d", os.Getpid(), w))
		env = append(env, "GORACE=halt_on_error=0 exitcode=0 log_path="+logp+" history_size=3", "VERIF_RACE_LOG="+logp)
	}
	return env
}

var driverHooks = map[string]func(eng *props.Engine, tier string, seed uint64, runs int, agg *doneRec) ([]*violRec, error){
	"C06": func(eng *props.Engine, tier string, seed uint64, runs int, agg *doneRec) ([]*violRec, error) {
		v1, err := crossProcessDigests(eng, tier, seed, runs, agg)
		if err != nil {
			return nil, err
		}
		v2, err := clockIndependence(eng, tier, seed, runs, agg)
		return append(v1, v2...), err
	},
	"C18": crossProcessDigests,
}

// clockIndependence runs the simulated-clock sub-check (harness/clock, a test binary built with the newer Go
// toolchain for testing/synctest; its path comes in VERIF_CLOCK_BIN). Without the binary the sub-check is
// skipped and says so in the evidence; it never alarms for that.
func clockIndependence(eng *props.Engine, tier string, seed uint64, runs int, agg *doneRec) ([]*violRec, error) {
	bin := os.Getenv("VERIF_CLOCK_BIN")
	if bin == "" {
		agg.Extra["simulated_clock_subcheck_unavailable"] = 1
		return nil, nil
	}
	n := 600
	if tier == "thorough" {
		n = 12000
	}
	const chunks = 12
	outs := make([]string, chunks)
	errs := make([]error, chunks)
	var wg sync.WaitGroup
	for c := 0; c < chunks; c++ {
		wg.Add(1)
		go func(c int) {
			defer wg.Done()
			cmd := exec.Command(bin, "-test.run", "^TestClock$", "-test.count=1", "-test.timeout=30m")
			cmd.Env = append(os.Environ(), fmt.Sprintf("VERIF_CLOCK_SEED=%d", seed), fmt.Sprintf("VERIF_CLOCK_LO=%d", n*c/chunks), fmt.Sprintf("VERIF_CLOCK_RUNS=%d", n*(c+1)/chunks))
			b, err := cmd.Output()
			outs[c], errs[c] = string(b), err
		}(c)
	}
	wg.Wait()
	var viols []*violRec
	total, parses := 0, 0
	for c := 0; c < chunks; c++ {
		sawN := false
		for _, line := range strings.Split(outs[c], "\n") {
			switch {
			case strings.HasPrefix(line, "n "):
				var a, b int
				fmt.Sscanf(line, "n %d %d", &a, &b)
				total += a
				parses += b
				sawN = true
			case strings.HasPrefix(line, "v "):
				head, detail, _ := strings.Cut(line[2:], "\t")
				f := strings.Fields(head)
				if len(f) < 3 {
					continue
				}
				run, _ := strconv.Atoi(f[0])
				rs, _ := strconv.ParseUint(f[1], 10, 64)
				viols = append(viols, &violRec{Run: run, RunSeed: rs, Class: "clock", Signature: f[2], Detail: detail})
			}
		}
		if !sawN {
			return nil, fmt.Errorf("simulated-clock sub-check did not finish (chunk %d): %v: %s", c, errs[c], sim.Clip(outs[c], 300))
		}
	}
	agg.Extra["simulated_clock_inputs"] = total
	agg.Extra["simulated_clock_parses"] = parses
	agg.Probes["parsed-under-simulated-clock"] = parses
	return viols, nil
}

// crossProcessDigests re-executes a prefix of the batch in fresh processes (at GOMAXPROCS 1, 4 and 16)
// and compares, run by run, the digest of everything the parsers returned with the digest the worker
// computed. A difference is a result that depends on the process it was computed in.
func crossProcessDigests(eng *props.Engine, tier string, seed uint64, runs int, agg *doneRec) ([]*violRec, error) {
	n := 480
	if tier == "thorough" {
		n = 4000
	}
	if eng.Race {
		n /= 6 // the race-detector build is several times slower
	}
	// only runs the workers finished (they may have stopped on the wall clock)
	have := 0
	for i := 0; i < n; i++ {
		if _, ok := agg.Digests[i]; ok {
			have = i + 1
		}
	}
	n = have
	if n == 0 {
		return nil, nil
	}
	self, _ := os.Executable()
	type res struct {
		out string
		err error
	}
	gmps := []string{"1", "4", "16", "2"}
	chunks := 5
	results := make([][]res, len(gmps))
	var wg sync.WaitGroup
	for g := range gmps {
		results[g] = make([]res, chunks)
		for c := 0; c < chunks; c++ {
			wg.Add(1)
			go func(g, c int) {
				defer wg.Done()
				lo, hi := n*c/chunks, n*(c+1)/chunks
				cmd := exec.Command(self, "digest", eng.Prop, tier, fmt.Sprint(seed), fmt.Sprint(hi), fmt.Sprint(lo), "sut")
				cmd.Env = append(os.Environ(), "GOMAXPROCS="+gmps[g])
				if eng.Race {
					cmd.Env = append(cmd.Env, workerEnv(eng, 100+g*chunks+c)[1:]...)
				}
				if g%2 == 1 {
					// the same operations in the opposite order, in a process that has parsed nothing else
					cmd.Env = append(cmd.Env, "VERIF_C06_ORDER=reverse", "VERIF_C18_ORDER=reverse")
				}
				out, err := cmd.Output()
				results[g][c] = res{string(out), err}
			}(g, c)
		}
	}
	wg.Wait()
	var viols []*violRec
	compared := 0
	for g := range gmps {
		for c := 0; c < chunks; c++ {
			r := results[g][c]
			if r.err != nil {
				return nil, fmt.Errorf("digest child failed: %v", r.err)
			}
			for _, line := range strings.Split(strings.TrimSpace(r.out), "\n") {
				f := strings.Fields(line)
				if len(f) < 2 {
					continue
				}
				i, _ := strconv.Atoi(f[0])
				want, ok := agg.Digests[i]
				if !ok || f[1] == "-" || want == "" {
					continue
				}
				compared++
				if f[1] != want {
					sig, how := eng.Prop+":cross-process-digest", "for the same inputs and history"
					if g%2 == 1 {
						sig, how = eng.Prop+":order-of-calls-digest", "executing the same operations in the opposite order"
					}
					viols = append(viols, &violRec{Run: i, RunSeed: sim.RunSeed(seed, eng.Name, i), Class: "cross-process", Signature: sig,
						Detail: fmt.Sprintf("run %d: a fresh process (GOMAXPROCS=%s) computed per-operation result digests %s, the worker computed %s %s", i, gmps[g], f[1], want, how)})
				}
			}
		}
	}
	agg.Extra["cross_process_digests_compared"] = compared
	agg.Probes["fresh-process-digest-compared"] = compared
	return viols, nil
}

// postMortem turns a crashed worker (fatal runtime error in the library, e.g. concurrent map
// access or stack overflow) into a violation when the crash can be attributed to a run.
var postMortem = func(eng *props.Engine, prop string, seed uint64, lastI int, exit int, stderr string) *violRec {
	if exit == 4 || (exit == 2 && !strings.Contains(stderr, "fatal error:")) {
		return nil
	}
	if strings.Contains(stderr, "fatal error:") || strings.Contains(stderr, "goroutine stack exceeds") {
		kind := "fatal"
		switch {
		case strings.Contains(stderr, "concurrent map"):
			kind = "concurrent-map-access"
		case strings.Contains(stderr, "stack exceeds") || strings.Contains(stderr, "stack overflow"):
			kind = "stack-overflow"
		case strings.Contains(stderr, "out of memory") || strings.Contains(stderr, "cannot allocate"):
			kind = "out-of-memory"
		case strings.Contains(stderr, "all goroutines are asleep"):
			kind = "deadlock"
		}
		run := lastI
		if run < 0 {
			run = 0
		}
		return &violRec{Run: run, RunSeed: sim.RunSeed(seed, eng.Name, run), Class: "fatal", Signature: prop + ":fatal:" + kind, Detail: "worker process died: " + sim.Clip(stderr, 1500)}
	}
	return nil
}

type replayFile struct {
	Property  string         `json:"property"`
	Engine    string         `json:"engine"`
	Tier      string         `json:"tier"`
	Seed      uint64         `json:"seed"`
	Run       int            `json:"run"`
	RunSeed   uint64         `json:"run_seed"`
	Choices   []int          `json:"choices"`
	OrigLen   int            `json:"original_len"`
	Minimised bool           `json:"minimised"`
	Shrink    string         `json:"shrink,omitempty"`
	History   bool           `json:"history,omitempty"`
	Shard     int            `json:"shard,omitempty"`
	Of        int            `json:"of,omitempty"`
	Violation map[string]any `json:"violation"`
	Events    []string       `json:"events"`
}

func writeReplay(path, prop, engine, tier string, seed uint64, v *violRec) {
	rf := replayFile{Property: prop, Engine: engine, Tier: tier, Seed: seed, Run: v.Run, RunSeed: v.RunSeed, Choices: v.Choices, OrigLen: v.OrigLen, Minimised: v.Minimised, Shrink: v.Shrink,
		History: v.History, Shard: v.Shard, Of: v.Of,
		Violation: map[string]any{"class": v.Class, "signature": v.Signature, "detail": v.Detail}, Events: v.Events}
	b, _ := json.MarshalIndent(rf, "", " ")
	os.WriteFile(path, b, 0o644)
}

func writeEvidence(eng *props.Engine, prop, tier string, seed uint64, agg *doneRec, nNontriv, nAll, nViol int, wallS float64, workers int) error {
	evals := agg.Evaluations
	for _, k := range []string{"enumerated_variants", "sub_evaluations"} {
		evals += agg.Extra[k]
	}
	samples := []any{}
	for _, s := range agg.Samples {
		samples = append(samples, s)
	}
	if len(samples) == 0 {
		samples = append(samples, "no non-trivial run finished in this batch")
	}
	cov := map[string]any{
		"evaluations":         evals,
		"distinct_nontrivial": nNontriv,
		"rule":                eng.Rule,
		"samples":             samples,
		"simulated_runs":      agg.Evaluations,
		"distinct_cases_all":  nAll,
		"runs_per_hour":       int(float64(agg.Evaluations) / wallS * 3600),
		"sim_time_covered_s":  agg.SimTime,
		"faults_injected":     agg.Faults,
		"probes":              agg.Probes,
		"extra_counters":      agg.Extra,
		"workers":             workers,
		"real_components":     eng.Real,
		"stub_components":     eng.Stubs,
		"seeds":               fmt.Sprintf("batch seed %d; run i uses RunSeed(seed,%q,i)", seed, eng.Name),
	}
	ev := map[string]any{
		"property_id": prop,
		"tier":        tier,
		"seed":        int64(seed),
		"level":       eng.Level,
		"coverage":    cov,
		"assumptions": eng.Assume,
		"wall_s":      wallS,
		"violations":  nViol,
	}
	b, err := json.MarshalIndent(ev, "", " ")
	if err != nil {
		return err
	}
	dir := filepath.Join(outDir(), "evidence")
	os.MkdirAll(dir, 0o755)
	return os.WriteFile(filepath.Join(dir, prop+".json"), b, 0o644)
}

// ---------------------------------------------------------------------------------------
// replay

func replay(args []string) int {
	if len(args) < 1 {
		fmt.Fprintln(os.Stderr, "usage: verif replay <file>")
		return 2
	}
	b, err := os.ReadFile(args[0])
	if err != nil {
		fmt.Fprintln(os.Stderr, err)
		return 2
	}
	var rf replayFile
	if err := json.Unmarshal(b, &rf); err != nil {
		fmt.Fprintln(os.Stderr, err)
		return 2
	}
	eng := props.Engines[rf.Property]
	if eng == nil {
		fmt.Fprintln(os.Stderr, "no engine for", rf.Property)
		return 2
	}
	want, _ := rf.Violation["signature"].(string)
	if cls, _ := rf.Violation["class"].(string); cls == "clock" {
		bin := os.Getenv("VERIF_CLOCK_BIN")
		if bin == "" {
			fmt.Fprintln(os.Stderr, "[verif] replay of a simulated-clock violation needs VERIF_CLOCK_BIN (./check replay sets it)")
			return 2
		}
		cmd := exec.Command(bin, "-test.run", "^TestClock$", "-test.count=1")
		cmd.Env = append(os.Environ(), fmt.Sprintf("VERIF_CLOCK_SEED=%d", rf.Seed), fmt.Sprintf("VERIF_CLOCK_ONLY=%d", rf.Run), fmt.Sprintf("VERIF_CLOCK_RUNS=%d", rf.Run+1))
		out, err := cmd.Output()
		if !strings.Contains(string(out), "\nn ") && !strings.HasPrefix(string(out), "n ") {
			fmt.Fprintln(os.Stderr, "[verif] simulated-clock replay did not finish:", err)
			return 2
		}
		for _, line := range strings.Split(string(out), "\n") {
			if strings.HasPrefix(line, "v ") {
				fmt.Fprintln(os.Stderr, "[verif] replay:", sim.Clip(line, 600))
				fmt.Printf("VIOLATION property=%s replay=%s\n", rf.Property, args[0])
				return 1
			}
		}
		fmt.Fprintln(os.Stderr, "[verif] replay: results under every simulated instant agree; not reproduced")
		return 3
	}
	if cls, _ := rf.Violation["class"].(string); cls == "cross-process" {
		// a result that depends on the process: recompute the run's digest in fresh processes
		self, _ := os.Executable()
		seen := map[string]bool{}
		for k, gmp := range []string{"1", "4", "16", "2"} {
			cmd := exec.Command(self, "digest", rf.Property, rf.Tier, fmt.Sprint(rf.Seed), fmt.Sprint(rf.Run+1), fmt.Sprint(rf.Run), "sut")
			cmd.Env = append(os.Environ(), "GOMAXPROCS="+gmp)
			if eng.Race {
				cmd.Env = append(cmd.Env, workerEnv(eng, 200+k)[1:]...)
			}
			if k%2 == 1 {
				cmd.Env = append(cmd.Env, "VERIF_C06_ORDER=reverse", "VERIF_C18_ORDER=reverse")
			}
			out, err := cmd.Output()
			if err != nil {
				fmt.Fprintln(os.Stderr, "[verif] digest child failed:", err)
				return 2
			}
			f := strings.Fields(string(out))
			if len(f) >= 2 {
				seen[f[1]] = true
				fmt.Fprintf(os.Stderr, "   fresh process %d (GOMAXPROCS=%s): digest %s\n", k, gmp, f[1])
			}
		}
		if len(seen) > 1 {
			fmt.Printf("VIOLATION property=%s replay=%s\n", rf.Property, args[0])
			return 1
		}
		fmt.Fprintln(os.Stderr, "[verif] replay: all fresh processes agree; not reproduced")
		return 3
	}
	if eng.Race && os.Getenv("VERIF_RACE_LOG") == "" {
		// re-exec under the race log configuration
		self, _ := os.Executable()
		cmd := exec.Command(self, append([]string{"replay"}, args...)...)
		cmd.Env = append(os.Environ(), workerEnv(eng, 99)...)
		cmd.Stdout, cmd.Stderr = os.Stdout, os.Stderr
		if err := cmd.Run(); err != nil {
			if ee, ok := err.(*exec.ExitError); ok {
				return ee.ExitCode()
			}
			return 2
		}
		return 0
	}
	saved := os.NewFile(uintptr(dupStdout()), "report")
	props.Silence()
	defer props.CleanupScratch()
	// the same heartbeat watchdog as in the workers: a replayed hang is reported, not waited for
	go func() {
		lastBeats, lastChange := sim.Beats(), time.Now()
		for {
			time.Sleep(2 * time.Second)
			if b := sim.Beats(); b != lastBeats {
				lastBeats, lastChange = b, time.Now()
				continue
			}
			if time.Since(lastChange) > 60*time.Second {
				props.CleanupScratch()
				if strings.HasSuffix(want, ":non-termination") {
					fmt.Fprintf(os.Stderr, "[verif] replay: a call into the library did not return within 60 s\n")
					fmt.Fprintf(saved, "VIOLATION property=%s replay=%s\n", rf.Property, args[0])
					os.Exit(1)
				}
				fmt.Fprintf(os.Stderr, "[verif] replay hung (expected %s)\n", want)
				os.Exit(3)
			}
		}
	}()
	if rf.History && rf.Of > 0 {
		// re-execute what the worker process had executed before the failing run
		fmt.Fprintf(os.Stderr, "[verif] replay with process history: runs %d, %d, ... %d of batch seed %d\n", rf.Shard, rf.Shard+rf.Of, rf.Run, rf.Seed)
		var v *sim.Violation
		var last *sim.T
		for i := rf.Shard; i <= rf.Run; i += rf.Of {
			last = sim.NewT(sim.RunSeed(rf.Seed, eng.Name, i))
			v = runGuarded(eng, last, rf.Tier)
			if v != nil && v.Signature == want {
				break // an earlier run of the shard may already show it (the worker reports a signature once)
			}
		}
		for _, e := range last.Events {
			fmt.Fprintln(os.Stderr, "  ", e)
		}
		if v == nil || v.Signature != want {
			fmt.Fprintf(os.Stderr, "[verif] replay with history did not reproduce %s\n", want)
			return 3
		}
		fmt.Fprintf(os.Stderr, "[verif] replay: %s: %s\n", v.Signature, v.Detail)
		fmt.Fprintf(saved, "VIOLATION property=%s replay=%s\n", rf.Property, args[0])
		return 1
	}
	var t *sim.T
	if rf.Choices != nil {
		t = sim.NewReplayT(rf.Choices)
	} else {
		t = sim.NewT(rf.RunSeed)
		t.Confirm = true
	}
	v := runGuarded(eng, t, rf.Tier)
	for _, e := range t.Events {
		fmt.Fprintln(os.Stderr, "  ", e)
	}
	if v == nil {
		fmt.Fprintf(os.Stderr, "[verif] replay did not reproduce a violation (expected %s)\n", want)
		return 3
	}
	fmt.Fprintf(os.Stderr, "[verif] replay: %s: %s\n", v.Signature, v.Detail)
	if v.Signature != want {
		fmt.Fprintf(os.Stderr, "[verif] replay produced a different signature (expected %s)\n", want)
		return 3
	}
	fmt.Fprintf(saved, "VIOLATION property=%s replay=%s\n", rf.Property, args[0])
	return 1
}

// subExec runs one trace in a fresh process of this binary.
func subExec(eng *props.Engine, prop, tier string, choices []int) (sig string, used []int, events []string, detail string) {
	self, _ := os.Executable()
	cmd := exec.Command(self, "exec", prop, tier)
	in, _ := json.Marshal(choices)
	cmd.Stdin = strings.NewReader(string(in))
	cmd.Env = append(os.Environ(), workerEnv(eng, 1000+os.Getpid()%1000)...)
	out, err := cmd.Output()
	if err != nil {
		return "", nil, nil, ""
	}
	var res struct {
		Sig    string   `json:"sig"`
		Used   []int    `json:"used"`
		Events []string `json:"events"`
		Detail string   `json:"detail"`
	}
	if json.Unmarshal(out, &res) != nil {
		return "", nil, nil, ""
	}
	return res.Sig, res.Used, res.Events, res.Detail
}

// execOne: internal helper used for sub-process shrinking (race engine).
func execOne(args []string) {
	prop, tier := args[0], args[1]
	eng := props.Engines[prop]
	var choices []int
	json.NewDecoder(os.Stdin).Decode(&choices)
	saved := os.NewFile(uintptr(dupStdout()), "report")
	props.Silence()
	t := sim.NewReplayT(choices)
	t.Confirm = false
	v := runGuarded(eng, t, tier)
	res := map[string]any{"sig": "", "used": t.Trace, "events": t.Events, "detail": ""}
	if v != nil {
		res["sig"] = v.Signature
		res["detail"] = v.Detail
	}
	b, _ := json.Marshal(res)
	saved.Write(b)
	props.CleanupScratch()
	sim.RaceLogCleanup()
}

// ---------------------------------------------------------------------------------------
// determinism self-test: the decision log of run i must be identical across processes and
// GOMAXPROCS values.

func digest(args []string) {
	prop, tier := args[0], args[1]
	seed, _ := strconv.ParseUint(args[2], 10, 64)
	n, _ := strconv.Atoi(args[3])
	lo := 0
	sut := false
	if len(args) > 4 {
		lo, _ = strconv.Atoi(args[4])
	}
	if len(args) > 5 && args[5] == "sut" {
		sut = true
	}
	eng := props.Engines[prop]
	saved := os.NewFile(uintptr(dupStdout()), "report")
	props.Silence()
	defer props.CleanupScratch()
	for i := lo; i < n; i++ {
		t := sim.NewT(sim.RunSeed(seed, eng.Name, i))
		v := runGuarded(eng, t, tier)
		if sut {
			// digest of what the system under test returned (C06 cross-process comparison)
			d := t.Digest
			if d == "" || v != nil {
				d = "-"
			}
			fmt.Fprintf(saved, "%d %s\n", i, d)
			continue
		}
		if d := os.Getenv("VERIF_DIGEST_EVENTS"); d != "" {
			os.WriteFile(filepath.Join(d, fmt.Sprintf("run-%d-pid%d.txt", i, os.Getpid())), []byte(strings.Join(t.Events, "\n")+"\n"+fmt.Sprint(t.Trace)), 0o644)
		}
		parts := []string{fmt.Sprint(t.Trace), strings.Join(t.Events, "\n")}
		if v != nil {
			parts = append(parts, v.Signature)
		}
		fmt.Fprintf(saved, "%d %016x %d\n", i, sim.HashStrings(parts...), len(t.Trace))
	}
}

func selftest(args []string) int {
	prop := args[0]
	n := 32
	if len(args) > 1 {
		n, _ = strconv.Atoi(args[1])
	}
	reps := 2
	if len(args) > 2 {
		reps, _ = strconv.Atoi(args[2])
	}
	eng := props.Engines[prop]
	if eng == nil {
		return 2
	}
	self, _ := os.Executable()
	var ref string
	procs := 0
	for _, gmp := range []string{"1", "4", "16"} {
		for rep := 0; rep < reps; rep++ {
			cmd := exec.Command(self, "digest", prop, "quick", "7", fmt.Sprint(n))
			cmd.Env = append(os.Environ(), "GOMAXPROCS="+gmp)
			if eng.Race {
				cmd.Env = append(cmd.Env, workerEnv(eng, 90+rep)...)
			}
			out, err := cmd.Output()
			if err != nil {
				fmt.Fprintln(os.Stderr, "selftest: digest process failed:", err)
				return 2
			}
			procs++
			if ref == "" {
				ref = string(out)
			} else if ref != string(out) {
				fmt.Fprintf(os.Stderr, "selftest %s: decision logs differ (GOMAXPROCS=%s rep %d)\n--- ref\n%s--- got\n%s", prop, gmp, rep, ref, out)
				return 1
			}
		}
	}
	fmt.Fprintf(os.Stderr, "selftest %s: %d runs x %d processes identical\n", prop, n, procs)
	return 0
}
