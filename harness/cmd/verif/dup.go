package main

import "syscall"

// dupStdout duplicates fd 1 so that the worker can keep reporting after os.Stdout has been
// pointed at /dev/null to swallow the library's own prints.
func dupStdout() int {
	fd, err := syscall.Dup(1)
	if err != nil {
		panic(err)
	}
	return fd
}

// limitAddressSpace caps the worker's virtual memory so that a runaway allocation in the library
// ends as a Go "out of memory" fatal error of this worker (attributed to the run in progress) instead
// of waking the kernel's OOM killer. Not used under the race detector, which reserves a huge range.
func limitAddressSpace(bytes uint64) {
	lim := syscall.Rlimit{Cur: bytes, Max: bytes}
	_ = syscall.Setrlimit(syscall.RLIMIT_AS, &lim)
}

// limitOpenFiles lowers the descriptor limit of a worker (and of the sub-processes it starts): a
// component that leaks a descriptor per skipped entry then runs dry within one long directory instead of
// after a thousand entries.
func limitOpenFiles(n uint64) {
	lim := syscall.Rlimit{Cur: n, Max: n}
	_ = syscall.Setrlimit(syscall.RLIMIT_NOFILE, &lim)
}
