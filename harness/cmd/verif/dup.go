package main

import "syscall"

// dupStdout duplicates fd 1 so that the worker can keep reporting after os.Stdout has been
// pointed at /dev/null to swallow the library's own prints.
func dupStdout() int {
	fd, err := syscall.Dup(1)
	if err != nil {
		panic(err)
	}
	return fd
}
