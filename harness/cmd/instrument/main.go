// Command instrument copies a checkout of the library into a scratch directory and inserts
// verifhook.Yield calls (a) at the entry of every declared function and method and (b) before and
// after every simple statement that calls a synchronisation-like method (Lock, Unlock, Load, Store,
// Get, Put, Do, ...) or sends / receives on a channel, and before every select. The C18 check builds against this copy, so that the seeded scheduler can pre-empt
// a task inside code the unchanged library does not have (a new cache, a new lock), not only at the
// hand-placed hooks. Generated protobuf code, tests and the verifhook package itself are copied as is.
//
//	instrument <src-repo> <dst-dir>
package main

import (
	"bytes"
	"fmt"
	"go/ast"
	"go/parser"
	"go/printer"
	"go/token"
	"io/fs"
	"os"
	"path/filepath"
	"strconv"
	"strings"
)

const hookImport = "github.com/jamespfennell/gtfs/verifhook"

var syncNames = map[string]bool{
	"Lock": true, "Unlock": true, "RLock": true, "RUnlock": true, "TryLock": true,
	"Load": true, "Store": true, "LoadOrStore": true, "LoadAndDelete": true, "Delete": true, "Range": true,
	"CompareAndSwap": true, "Swap": true, "Add": true, "Get": true, "Put": true, "Do": true,
	"Wait": true, "Signal": true, "Broadcast": true, "Done": true,
}

func main() {
	if len(os.Args) != 3 {
		fmt.Fprintln(os.Stderr, "usage: instrument <src-repo> <dst-dir>")
		os.Exit(2)
	}
	src, dst := os.Args[1], os.Args[2]
	if err := os.RemoveAll(dst); err != nil {
		fatal(err)
	}
	nFiles, nSites := 0, 0
	err := filepath.WalkDir(src, func(p string, d fs.DirEntry, err error) error {
		if err != nil {
			return err
		}
		rel, _ := filepath.Rel(src, p)
		if d.IsDir() {
			if d.Name() == ".git" {
				return filepath.SkipDir
			}
			return os.MkdirAll(filepath.Join(dst, rel), 0o755)
		}
		if !d.Type().IsRegular() {
			return nil
		}
		b, err := os.ReadFile(p)
		if err != nil {
			return err
		}
		top := strings.Split(rel, string(filepath.Separator))[0]
		if strings.HasSuffix(rel, ".go") && !strings.HasSuffix(rel, "_test.go") && top != "proto" && top != "verifhook" && top != "performance" {
			nb, n, ierr := instrument(rel, b)
			if ierr != nil {
				return fmt.Errorf("%s: %w", rel, ierr)
			}
			if n > 0 {
				b = nb
				nFiles++
				nSites += n
			}
		}
		return os.WriteFile(filepath.Join(dst, rel), b, 0o644)
	})
	if err != nil {
		fatal(err)
	}
	fmt.Fprintf(os.Stderr, "[instrument] %d yield sites in %d files -> %s\n", nSites, nFiles, dst)
}

func fatal(err error) {
	fmt.Fprintln(os.Stderr, "instrument:", err)
	os.Exit(2)
}

type inst struct {
	fset  *token.FileSet
	rel   string
	n     int
	alias string
}

func (in *inst) yield(pos token.Pos, kind string) ast.Stmt {
	in.n++
	site := fmt.Sprintf("auto:%s:%s:%d", kind, in.rel, in.fset.Position(pos).Line)
	return &ast.ExprStmt{X: &ast.CallExpr{
		Fun:  &ast.SelectorExpr{X: ast.NewIdent(in.alias), Sel: ast.NewIdent("Yield")},
		Args: []ast.Expr{&ast.BasicLit{Kind: token.STRING, Value: strconv.Quote(site)}},
	}}
}

// callsSync reports whether the simple statement contains a call of a synchronisation-like method.
func callsSync(s ast.Stmt) bool {
	found := false
	ast.Inspect(s, func(n ast.Node) bool {
		switch x := n.(type) {
		case *ast.FuncLit:
			return false // its body is handled on its own
		case *ast.CallExpr:
			if sel, ok := x.Fun.(*ast.SelectorExpr); ok && syncNames[sel.Sel.Name] {
				found = true
			}
		case *ast.UnaryExpr:
			if x.Op == token.ARROW { // channel receive
				found = true
			}
		case *ast.SendStmt:
			found = true
		}
		return !found
	})
	return found
}

func (in *inst) stmts(list []ast.Stmt) []ast.Stmt {
	var out []ast.Stmt
	for _, s := range list {
		before, after := false, false
		switch s.(type) {
		case *ast.ExprStmt, *ast.AssignStmt, *ast.DeferStmt, *ast.GoStmt, *ast.DeclStmt, *ast.IncDecStmt, *ast.SendStmt:
			if callsSync(s) {
				before, after = true, true
			}
		case *ast.ReturnStmt:
			if callsSync(s) {
				before = true
			}
		case *ast.SelectStmt:
			before = true
		}
		if before {
			out = append(out, in.yield(s.Pos(), "sync"))
		}
		out = append(out, s)
		if after {
			out = append(out, in.yield(s.End(), "sync"))
		}
	}
	return out
}

func (in *inst) walk(n ast.Node) {
	ast.Inspect(n, func(n ast.Node) bool {
		switch x := n.(type) {
		case *ast.FuncDecl:
			if x.Body != nil {
				x.Body.List = append([]ast.Stmt{in.yield(x.Body.Lbrace, "func")}, x.Body.List...)
			}
		}
		// Function literals get no entry yield: the library passes literals to sort.Slice over collections
		// it built by ranging over Go maps, so the number of comparator calls (and with it the schedule)
		// would differ from process to process for the same choices.
		return true
	})
	// second pass: statement lists (after the entry yields exist; they never call sync methods themselves)
	ast.Inspect(n, func(n ast.Node) bool {
		switch x := n.(type) {
		case *ast.BlockStmt:
			x.List = in.stmts(x.List)
		case *ast.CaseClause:
			x.Body = in.stmts(x.Body)
		case *ast.CommClause:
			x.Body = in.stmts(x.Body)
		}
		return true
	})
}

func instrument(rel string, src []byte) ([]byte, int, error) {
	fset := token.NewFileSet()
	f, err := parser.ParseFile(fset, rel, src, parser.ParseComments)
	if err != nil {
		return nil, 0, err
	}
	in := &inst{fset: fset, rel: filepath.ToSlash(rel), alias: "verifhook"}
	// reuse an existing import of the hook package (possibly under another name)
	have := false
	for _, imp := range f.Imports {
		if p, _ := strconv.Unquote(imp.Path.Value); p == hookImport {
			have = true
			if imp.Name != nil {
				in.alias = imp.Name.Name
			}
		}
	}
	in.walk(f)
	if in.n == 0 {
		return src, 0, nil
	}
	if !have {
		spec := &ast.ImportSpec{Path: &ast.BasicLit{Kind: token.STRING, Value: strconv.Quote(hookImport)}}
		decl := &ast.GenDecl{Tok: token.IMPORT, Specs: []ast.Spec{spec}}
		f.Decls = append([]ast.Decl{decl}, f.Decls...)
	}
	var buf bytes.Buffer
	if err := (&printer.Config{Mode: printer.UseSpaces | printer.TabIndent, Tabwidth: 8}).Fprint(&buf, fset, f); err != nil {
		return nil, 0, err
	}
	return buf.Bytes(), in.n, nil
}
