// Package props holds one engine per claimed property. An engine is a function of a sim.T:
// it draws every decision from t, drives the real code, evaluates its oracle and returns a
// violation (or nil).
package props

import (
	"fmt"
	"io"
	"log"
	"os"
	"runtime/debug"
	"strings"
	"syscall"
	"time"

	"github.com/jamespfennell/gtfs"
	"github.com/jamespfennell/gtfs/extensions"
	"github.com/jamespfennell/gtfs/extensions/nyctalerts"
	"github.com/jamespfennell/gtfs/extensions/nycttrips"

	"verif/sim"
)

// Engine describes how a property is explored.
type Engine struct {
	Prop   string
	Name   string
	Level  string // evidence level
	Rule   string // distinct_nontrivial rule
	Run    func(t *sim.T, tier string) *sim.Violation
	Budget func(tier string) (runs int, wall time.Duration)
	Race   bool // needs the -race binary and sub-process replay
	Real   []string
	Stubs  []string
	Assume []string
	// MandatoryProbes must be non-zero over a thorough batch (a warning otherwise).
	MandatoryProbes []string
}

var Engines = map[string]*Engine{}

func register(e *Engine) { Engines[e.Prop] = e }

// Silence redirects the library's stdout/log noise. Called once per worker process.
func Silence() {
	log.SetOutput(io.Discard)
	if f, err := os.OpenFile(os.DevNull, os.O_WRONLY, 0); err == nil {
		os.Stdout = f // the worker reports through a dup'ed fd, see cmd/verif
	}
}

// SortNorm is the dump mode used by engines that must stay silent about orders that are
// C06's business (collections the parsers build by ranging over Go maps).
var SortNorm = &sim.DumpOpts{SortTypes: map[string]bool{
	"gtfs.Vehicle":             true,
	"gtfs.Service":             true,
	"gtfs.AlertInformedEntity": true,
}}

// DupStdout duplicates fd 1 (reports keep flowing after Silence has pointed os.Stdout at /dev/null).
func DupStdout() int {
	fd, err := syscall.Dup(1)
	if err != nil {
		panic(err)
	}
	return fd
}

// guard runs f and converts a panic into (stack, true).
func guard(f func()) (panicVal any, stack string) {
	sim.Beat()
	defer func() {
		sim.Beat()
		if r := recover(); r != nil {
			panicVal = r
			stack = string(debug.Stack())
		}
	}()
	f()
	return nil, ""
}

// panicSig names a panic by the innermost /repo frame and the panic kind.
func panicSig(val any, stack string) string {
	kind := "panic"
	msg := fmt.Sprint(val)
	switch {
	case strings.Contains(msg, "nil pointer dereference"):
		kind = "nil-deref"
	case strings.Contains(msg, "slice bounds out of range"):
		kind = "slice-bounds"
	case strings.Contains(msg, "index out of range"):
		kind = "index-range"
	case strings.Contains(msg, "nil map"):
		kind = "nil-map"
	case strings.Contains(msg, "interface conversion"):
		kind = "type-assert"
	case strings.Contains(msg, "divide by zero"):
		kind = "div-zero"
	}
	return repoFrame(stack) + ":" + kind
}

// repoFrame finds the innermost frame that belongs to the library under test, skipping
// the frames of runtime/panic machinery and of the harness.
func repoFrame(stack string) string {
	const mod = "github.com/jamespfennell/gtfs"
	for _, line := range strings.Split(stack, "\n") {
		line = strings.TrimSpace(line)
		if !strings.HasPrefix(line, mod) {
			continue
		}
		fn := strings.TrimPrefix(line, mod)
		fn = strings.TrimPrefix(fn, "/")
		if i := strings.LastIndex(fn, "("); i > 0 {
			fn = fn[:i]
		}
		if strings.HasPrefix(fn, "proto.") && strings.Contains(fn, "ProtoReflect") {
			continue
		}
		if fn == "" || strings.HasPrefix(fn, ".") {
			fn = "gtfs" + fn
		}
		// strip closure suffixes (.func1, .func1.2) so refactors of closures keep the signature
		for {
			i := strings.LastIndex(fn, ".")
			if i < 0 {
				break
			}
			tail := fn[i+1:]
			if strings.HasPrefix(tail, "func") || isDigits(tail) {
				fn = fn[:i]
				continue
			}
			break
		}
		return fn
	}
	return "outside-repo"
}

func isDigits(s string) bool {
	if s == "" {
		return false
	}
	for _, c := range s {
		if c < '0' || c > '9' {
			return false
		}
	}
	return true
}

// ---------------------------------------------------------------------------------------
// Extension / option specs: a value that can be turned into a fresh, equivalent object any
// number of times.

type ExtSpec struct {
	Kind   int // 0 nil, 1 NoExtension, 2 nycttrips, 3 nyctalerts
	Trips  nycttrips.ExtensionOpts
	Alerts nyctalerts.ExtensionOpts
	TZ     int // 0 nil, 1 UTC, 2 America/New_York, 3-6 fixed zones that share a name with another zone (see Location)
}

var nyLoc *time.Location

func init() {
	l, err := time.LoadLocation("America/New_York")
	if err != nil {
		panic("harness: tzdata for America/New_York is required: " + err.Error())
	}
	nyLoc = l
}

func (s ExtSpec) String() string {
	tz := []string{"tz=nil", "tz=UTC", "tz=NY", "tz=fixed(local,+5h)", "tz=fixed(local,-3h30)", "tz=fixed(UTC,+2h)", "tz=fixed(,-7h)"}[s.TZ]
	switch s.Kind {
	case 0:
		return "ext=nil," + tz
	case 1:
		return "ext=none," + tz
	case 2:
		return fmt.Sprintf("ext=nycttrips{filter=%v,preserveM=%v},%s", s.Trips.FilterStaleUnassignedTrips, s.Trips.PreserveMTrainPlatformsInBushwick, tz)
	default:
		return fmt.Sprintf("ext=nyctalerts{%s,station=%v,skipTT=%v,meta=%v},%s", s.Alerts.ElevatorAlertsDeduplicationPolicy, s.Alerts.ElevatorAlertsInformUsingStationIDs, s.Alerts.SkipTimetabledNoServiceAlerts, s.Alerts.AddNyctMetadata, tz)
	}
}

func (s ExtSpec) Extension() extensions.Extension {
	switch s.Kind {
	case 0:
		return nil
	case 1:
		return extensions.NoExtension()
	case 2:
		return nycttrips.Extension(s.Trips)
	default:
		return nyctalerts.Extension(s.Alerts)
	}
}

func (s ExtSpec) Location() *time.Location {
	switch s.TZ {
	case 1:
		return time.UTC
	case 2:
		return nyLoc
	// distinct location objects whose names coincide (with each other, with UTC, with the empty name): anything
	// keyed by the zone's name instead of the zone confuses them. A fresh object per call.
	case 3:
		return time.FixedZone("local", 5*3600)
	case 4:
		return time.FixedZone("local", -3*3600-1800)
	case 5:
		return time.FixedZone("UTC", 2*3600)
	case 6:
		return time.FixedZone("", -7*3600)
	}
	return nil
}

// Fresh builds a new options object for the spec.
func (s ExtSpec) Fresh() *gtfs.ParseRealtimeOptions {
	return &gtfs.ParseRealtimeOptions{Timezone: s.Location(), Extension: s.Extension()}
}

var dedupPolicies = []nyctalerts.ElevatorAlertsDeduplicationPolicy{nyctalerts.NoDeduplication, nyctalerts.DeduplicateInStation, nyctalerts.DeduplicateInComplex}

func DrawExtSpec(t *sim.T) ExtSpec {
	s := ExtSpec{Kind: t.Choose(4), TZ: t.Weighted(3, 3, 3, 1, 1, 1, 1)}
	switch s.Kind {
	case 2:
		s.Trips = nycttrips.ExtensionOpts{FilterStaleUnassignedTrips: t.Chance(1, 2), PreserveMTrainPlatformsInBushwick: t.Chance(1, 2)}
	case 3:
		s.Alerts = nyctalerts.ExtensionOpts{
			ElevatorAlertsDeduplicationPolicy:   dedupPolicies[t.Choose(3)],
			ElevatorAlertsInformUsingStationIDs: t.Chance(1, 2),
			SkipTimetabledNoServiceAlerts:       t.Chance(1, 2),
			AddNyctMetadata:                     t.Chance(1, 2),
		}
	}
	return s
}

// parseRT runs ParseRealtime under a panic guard.
func parseRT(b []byte, o *gtfs.ParseRealtimeOptions) (r *gtfs.Realtime, err error, pv any, stack string) {
	pv, stack = guard(func() { r, err = gtfs.ParseRealtime(b, o) })
	return
}

func parseST(b []byte, o gtfs.ParseStaticOptions) (r *gtfs.Static, err error, pv any, stack string) {
	pv, stack = guard(func() { r, err = gtfs.ParseStatic(b, o) })
	return
}

func errString(err error) string {
	if err == nil {
		return "<nil>"
	}
	return err.Error()
}
