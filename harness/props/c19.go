package props

import (
	"bytes"
	"crypto/sha256"
	"encoding/hex"
	"fmt"
	"google.golang.org/protobuf/encoding/protowire"
	"os"
	"os/exec"
	"path/filepath"
	"runtime"
	"sort"
	"strconv"
	"strings"
	"syscall"
	"time"

	"github.com/jamespfennell/gtfs"
	"github.com/jamespfennell/gtfs/extensions/nycttrips"
	"github.com/jamespfennell/gtfs/journal"
	gtfsrt "github.com/jamespfennell/gtfs/proto"
	"google.golang.org/protobuf/proto"

	"verif/gen"
	"verif/sim"
)

// Engine dirsim (C19): a disk model plus a real scratch directory. Every entry is created and
// mutated only by the simulator; fault operations are applied between Next() calls, which the
// simulator itself issues (through a tee handed to BuildJournal), so "between listing and read" is
// an exact, replayable instant. The oracle is the reference model of Appendix C of DESIGN.md.

func init() {
	register(&Engine{
		Prop:  "C19",
		Name:  "dirsim",
		Level: "fault_enumeration",
		Rule: "a case is (directory layout: sorted entry kinds + names, post-listing fault plan); it is non-trivial when at least one bad entry " +
			"(unreadable or unparseable at its read instant) is followed in name order by at least one good file; distinct = distinct hash of (layout, plan). " +
			"Enumerating runs add one case per enumerated single-fault placement.",
		Run: runC19,
		Budget: func(tier string) (int, time.Duration) {
			if tier == "thorough" {
				return 400000, 15 * time.Minute
			}
			return 6000, 32 * time.Second
		},
		Real:  []string{"journal.NewDirectoryGtfsrtSource", "DirectoryGtfsrtSource.Next", "os.ReadDir/os.ReadFile on a real scratch directory", "gtfs.ParseRealtime + nycttrips extension", "journal.BuildJournal", "Journal.ExportToCsv", "the gtfs command line tool built from the working tree (sub-process; half of its runs as user 65534 when the harness is root)"},
		Stubs: []string{"simulated world/publisher producing the good feeds", "disk model + fault plan (the simulator performs the file operations)", "tee GtfsrtSource that applies faults between Next calls", "slice-backed GtfsrtSource for the reference journal"},
		Assume: []string{
			"ParseRealtime with fresh options is used as an oracle component for 'what a good file yields' (its own correctness is C02/C06's business)",
			"error kinds injected: ENOENT, EISDIR, ELOOP, empty/torn/corrupt contents; EIO and short reads from os.ReadFile are not injected (Next does not branch on the error kind)",
			"entries modified in place after listing may yield their pre- or post-image (the property fixes the outcome only for entries that vanish)",
		},
		MandatoryProbes: []string{"bad-then-good", "all-bad-dir", "empty-dir", "fault-fired:vanish", "journal-compared"},
	})
}

type entKind int

const (
	kGood entKind = iota
	kEmpty
	kTruncated
	kBitflip
	kGarbage
	kSubdir
	kSubdirNonEmpty
	kDangling
	kLoop
	kLinkToGood
	kLinkToDir
	numEntKinds
)

var entKindNames = []string{"good", "empty", "truncated", "bitflip", "garbage", "subdir", "subdir-nonempty", "dangling-symlink", "symlink-loop", "symlink-to-good", "symlink-to-dir"}

type dirEntry struct {
	name string
	kind entKind
	// data is the current content when the entry is (or links to) a regular file.
	data []byte
	// isFile: readable as a regular file right now
	isFile bool
	exists bool
	// pre-image when modified in place after listing
	modified bool
	preFile  bool
	preData  []byte
	// image still reachable through a directory handle opened before the directory was renamed away
	// (the property does not say whether the source names its files by path or through such a handle)
	viaHandle  bool
	handleFile bool
	handleData []byte
	note       string
}

type contentHash struct {
	h uint64
	n int
}

type dirSim struct {
	hashes  map[*byte]contentHash
	variant int // index into c19Variants: the configuration under which yields are explained
	t       *sim.T
	root    string // scratch root (contains "d" = the directory under test, "x" = link targets)
	dir     string
	ents    []*dirEntry // sorted by name
	cache   map[uint64]string
	events  []string
}

var scratchBase string

// ScratchBase returns (creating on first use) the per-process scratch root.
func ScratchBase() string {
	if scratchBase == "" {
		base := os.TempDir()
		if st, err := os.Stat("/dev/shm"); err == nil && st.IsDir() {
			base = "/dev/shm"
		}
		d, err := os.MkdirTemp(base, "verif-c19-")
		if err != nil {
			panic("harness: cannot create scratch dir: " + err.Error())
		}
		scratchBase = d
	}
	return scratchBase
}

// CleanupScratch removes the scratch root (called by the worker at exit).
func CleanupScratch() {
	if scratchBase != "" {
		os.RemoveAll(scratchBase)
		scratchBase = ""
	}
}

var dirSeq int

func sourceOpts() *gtfs.ParseRealtimeOptions {
	return &gtfs.ParseRealtimeOptions{Extension: nycttrips.Extension(nycttrips.ExtensionOpts{
		FilterStaleUnassignedTrips:        true,
		PreserveMTrainPlatformsInBushwick: false,
	})}
}

const skipOutcome = "<skip>"

// The property fixes which files are yielded, in which order and how often, not the options the source
// parses them with. What a file may yield is therefore its parse under the options the source uses
// today or under any other bundled trips configuration / timezone (outcomeSet); the reference journal is
// built with the configuration that explained the yields.
var c19Variants = func() []ExtSpec {
	out := []ExtSpec{{Kind: 2, Trips: nycttrips.ExtensionOpts{FilterStaleUnassignedTrips: true}}}
	for _, tz := range []int{0, 2, 1} {
		for _, f := range []bool{true, false} {
			for _, p := range []bool{false, true} {
				out = append(out, ExtSpec{Kind: 2, TZ: tz, Trips: nycttrips.ExtensionOpts{FilterStaleUnassignedTrips: f, PreserveMTrainPlatformsInBushwick: p}})
			}
		}
		out = append(out, ExtSpec{Kind: 0, TZ: tz})
	}
	return out
}()

// outcomeDigest stands for a canonical dump wherever outcomes are only compared: the memo of one large directory
// (a thousand files under sixteen parse hypotheses) held several GiB of dump text before.
func outcomeDigest(dump string) string {
	sum := sha256.Sum256([]byte(dump))
	return "d:" + hex.EncodeToString(sum[:16])
}

// outcome is what reading+parsing the given state yields: skipOutcome or (the digest of) the dump of the parse.
func (d *dirSim) outcome(isFile bool, data []byte) string {
	if !isFile {
		return skipOutcome
	}
	// content hashes are memoised by slice identity (images are never modified in place by the harness)
	var key *byte
	if len(data) > 0 {
		key = &data[0]
	}
	ch, ok := d.hashes[key]
	if !ok || ch.n != len(data) {
		ch = contentHash{sim.HashBytes(data), len(data)}
		d.hashes[key] = ch
	}
	h := ch.h ^ uint64(d.variant+1)*0x9e3779b97f4a7c15
	if o, ok := d.cache[h]; ok {
		return o
	}
	r, err, pv, _ := parseRT(append([]byte(nil), data...), c19Variants[d.variant].Fresh())
	o := skipOutcome
	if pv == nil && err == nil {
		o = outcomeDigest(sim.Dump(r, SortNorm))
	}
	d.cache[h] = o
	return o
}

func (d *dirSim) allowed(e *dirEntry) []string {
	cur := skipOutcome
	if e.exists {
		cur = d.outcome(e.isFile, e.data)
	}
	out := []string{cur}
	if e.modified {
		if pre := d.outcome(e.preFile, e.preData); !contains(out, pre) {
			out = append(out, pre)
		}
	}
	if e.viaHandle {
		if h := d.outcome(e.handleFile, e.handleData); !contains(out, h) {
			out = append(out, h)
		}
	}
	return out
}

func contains(xs []string, x string) bool {
	for _, y := range xs {
		if x == y {
			return true
		}
	}
	return false
}

var nameAlphabet = []string{"0", "1", "2", "9", "a", "b", "Z", "A", ".", "-", "_", "é", "10", "02", " ", "~", "pb", ".gtfsrt", ".tmp", ".gz", ".json", "README", ".pb", "#", "%", "(1)", "\xe9", "\xff\xfe", "\xc3"}

func drawName(t *sim.T, used map[string]bool, i int) string {
	for attempt := 0; ; attempt++ {
		var sb strings.Builder
		n := t.Range(1, 4)
		if t.Chance(1, 10) {
			n = t.Range(5, 20)
		}
		for k := 0; k < n; k++ {
			sb.WriteString(nameAlphabet[t.Choose(len(nameAlphabet))])
		}
		s := sb.String()
		if attempt > 3 {
			s = fmt.Sprintf("%s%d_%d", s, i, attempt)
		}
		if s == "." || s == ".." || used[s] || len(s) > 200 {
			continue
		}
		used[s] = true
		return s
	}
}

func garbage(t *sim.T) []byte {
	n := t.Range(1, 40)
	b := make([]byte, n)
	for i := range b {
		b[i] = byte(t.Choose(256))
	}
	return b
}

// materialise writes one entry to the real directory.
func (d *dirSim) materialise(e *dirEntry, goodTarget []byte) {
	p := filepath.Join(d.dir, e.name)
	must := func(err error) {
		if err != nil {
			extra := ""
			if os.Getenv("VERIF_DEBUG_FD") != "" {
				ents, _ := os.ReadDir("/proc/self/fd")
				for _, e := range ents {
					l, _ := os.Readlink("/proc/self/fd/" + e.Name())
					extra += " " + e.Name() + "->" + l
				}
			}
			panic("harness: scratch dir operation failed: " + err.Error() + extra)
		}
	}
	switch e.kind {
	case kGood, kEmpty, kTruncated, kBitflip, kGarbage:
		must(os.WriteFile(p, e.data, 0o644))
	case kSubdir:
		must(os.Mkdir(p, 0o755))
	case kSubdirNonEmpty:
		must(os.Mkdir(p, 0o755))
		must(os.WriteFile(filepath.Join(p, "inner"), goodTarget, 0o644))
	case kDangling:
		must(os.Symlink(filepath.Join(d.root, "x", "missing-"+fmt.Sprint(dirSeq)), p))
	case kLoop:
		must(os.Symlink(p, p))
	case kLinkToGood:
		tp := filepath.Join(d.root, "x", fmt.Sprintf("t%d", len(d.events)))
		must(os.WriteFile(tp, e.data, 0o644))
		must(os.Symlink(tp, p))
	case kLinkToDir:
		must(os.Symlink(filepath.Join(d.root, "x"), p))
	}
}

type c19Plan struct {
	// faults[k] are applied immediately before the k-th Next call (0-based)
	faults map[int][]c19Fault
	// stallBefore-1: Next call before which the consumer stalls > 1 s (0 = never)
	stallBefore int
}

type c19Fault struct {
	pick int // index among the not-yet-consumed entries (mod their number)
	kind int // 0 vanish 1 truncate 2 overwrite-garbage 3 replace-by-dir 4 overwrite-with-good
	arg  int
}

var c19FaultNames = []string{"vanish", "truncate", "overwrite-garbage", "replace-by-dir", "overwrite-good", "directory-vanishes", "grow-by-appending"}

type sliceSource struct {
	items []*gtfs.Realtime
	i     int
}

func (s *sliceSource) Next() *gtfs.Realtime {
	if s.i >= len(s.items) {
		return nil
	}
	s.i++
	return s.items[s.i-1]
}

type c19Tee struct {
	d         *dirSim
	src       *journal.DirectoryGtfsrtSource
	plan      c19Plan
	call      int
	pos       int   // smallest index the source may still have to read
	positions []int // every index the source may be at (see Next)
	v         *sim.Violation
	yielded   [][]byte // bytes of the alternative that matched each yield, for the reference journal
	extraGen  [][]byte
	done      bool
	// stallBefore-1 is the call before which the consumer stalls for more than a second (0: never)
	stallBefore  int
	hyps         []*c19Hyp
	variantNoted bool
}

func (tee *c19Tee) fail(class, sig, detail string) {
	if tee.v == nil {
		tee.v = &sim.Violation{Class: class, Signature: "C19:" + sig, Detail: detail}
	}
}

func (tee *c19Tee) applyFaults() {
	d := tee.d
	for _, f := range tee.plan.faults[tee.call] {
		rest := d.ents[tee.pos:]
		if len(rest) == 0 {
			return
		}
		e := rest[f.pick%len(rest)]
		p := filepath.Join(d.dir, e.name)
		if !e.exists {
			continue
		}
		rememberPre := func() {
			if !e.modified {
				e.modified = true
				e.preFile = e.isFile
				e.preData = e.data
			}
		}
		switch f.kind {
		case 0:
			os.RemoveAll(p)
			e.exists, e.isFile, e.data = false, false, nil
			// a vanished entry has exactly one allowed outcome: skipped
			e.modified = false
			d.t.Logf("before Next#%d: vanish %q (%s)", tee.call, e.name, entKindNames[e.kind])
		case 1:
			if !e.isFile || e.kind == kLinkToGood || len(e.data) == 0 {
				continue
			}
			rememberPre()
			n := f.arg % len(e.data)
			if err := os.Truncate(p, int64(n)); err != nil {
				panic("harness: truncate: " + err.Error())
			}
			e.data = e.data[:n:n]
			d.t.Logf("before Next#%d: truncate %q to %d bytes", tee.call, e.name, n)
		case 2, 4:
			if !e.isFile || e.kind == kLinkToGood {
				continue
			}
			rememberPre()
			var nb []byte
			if f.kind == 2 || len(tee.extraGen) == 0 {
				nb = []byte{0xff, byte(f.arg), 0x00, 0x13, 0x37}
			} else {
				nb = tee.extraGen[f.arg%len(tee.extraGen)]
			}
			if err := os.WriteFile(p, nb, 0o644); err != nil {
				panic("harness: overwrite: " + err.Error())
			}
			e.data = nb
			d.t.Logf("before Next#%d: %s %q (%d bytes)", tee.call, c19FaultNames[f.kind], e.name, len(nb))
		case 5:
			// the whole directory is renamed away: every entry not yet read has vanished from its path (and is
			// skipped by a source that opens by path) but keeps its content for a source that holds the directory open
			gone := d.dir + ".gone"
			if err := os.Rename(d.dir, gone); err != nil {
				continue
			}
			d.dir = gone // the model keeps operating on the renamed tree; the source still holds the old path
			for _, o := range rest {
				if o.exists {
					o.viaHandle, o.handleFile, o.handleData = true, o.isFile, o.data
				}
				o.exists, o.isFile, o.data, o.modified = false, false, nil, false
				o.note = c19FaultNames[5]
			}
			d.t.Logf("before Next#%d: the directory itself is renamed away (%d entries not yet read)", tee.call, len(rest))
		case 6:
			// the file grows after listing (a writer is still appending): an in-place modification
			if !e.isFile || e.kind == kLinkToGood || len(tee.extraGen) == 0 {
				continue
			}
			rememberPre()
			nb := append(append([]byte(nil), e.data...), tee.extraGen[f.arg%len(tee.extraGen)]...)
			if err := os.WriteFile(p, nb, 0o644); err != nil {
				panic("harness: append: " + err.Error())
			}
			e.data = nb
			d.t.Logf("before Next#%d: %q grows to %d bytes", tee.call, e.name, len(nb))
		case 3:
			os.RemoveAll(p)
			if err := os.Mkdir(p, 0o755); err != nil {
				panic("harness: mkdir: " + err.Error())
			}
			// replaced by a directory: reading it fails (EISDIR); treat like an in-place modification
			rememberPre()
			e.isFile, e.data = false, nil
			d.t.Logf("before Next#%d: replace %q by a directory", tee.call, e.name)
		}
		d.t.Fault("applied:" + c19FaultNames[f.kind])
		e.note = c19FaultNames[f.kind]
	}
}

func (tee *c19Tee) maySkip(e *dirEntry) bool { return contains(tee.d.allowed(e), skipOutcome) }

// bytesFor returns the image of e whose outcome is got.
func (tee *c19Tee) bytesFor(e *dirEntry, got string) []byte {
	if e.exists && tee.d.outcome(e.isFile, e.data) == got {
		return e.data
	}
	if e.viaHandle && tee.d.outcome(e.handleFile, e.handleData) == got {
		return e.handleData
	}
	return e.preData
}

// c19Hyp is one hypothesis about the parse configuration the source uses (an index into c19Variants)
// together with the set of positions the source may be at under it.
type c19Hyp struct {
	variant   int
	positions []int
	yielded   [][]byte
	done      bool
	fail      *sim.Violation
}

// Next matches what the real source returns against the reference model. Because two entries may
// hold images with identical parses and because an entry modified in place may legitimately yield or
// skip, the model tracks the *set* of positions the source may be at (NFA style), once per candidate
// parse configuration, and raises an alarm only when no hypothesis explains the observations.
func (tee *c19Tee) Next() *gtfs.Realtime {
	d := tee.d
	tee.applyFaults()
	if tee.stallBefore == tee.call+1 {
		// a slow consumer: more than a second of real time passes between two Next calls (the source
		// reads the wall clock for its progress bookkeeping; there is no seam for it)
		time.Sleep(1050 * time.Millisecond)
		d.t.Fault("consumer-stall-1s")
		d.t.Logf("before Next#%d: consumer stalls for 1.05 s", tee.call)
	}
	var r *gtfs.Realtime
	pv, stack := guard(func() { r = tee.src.Next() })
	call := tee.call
	tee.call++
	if pv != nil {
		tee.fail("panic", "panic:"+panicSig(pv, stack), fmt.Sprintf("Next#%d panicked: %v", call, pv))
		return nil
	}
	if tee.v != nil {
		return nil
	}
	if tee.hyps == nil {
		for v := range c19Variants {
			tee.hyps = append(tee.hyps, &c19Hyp{variant: v, positions: []int{0}})
		}
	}
	got := ""
	if r != nil {
		got = outcomeDigest(sim.Dump(r, SortNorm))
	}
	var alive []*c19Hyp
	logged := false
	for _, h := range tee.hyps {
		d.variant = h.variant
		name := tee.observe(h, r, got, call)
		if h.fail == nil {
			alive = append(alive, h)
			if !logged {
				d.t.Logf("Next#%d -> %s", call, name)
				logged = true
			}
		}
	}
	if len(alive) == 0 {
		// report what contradicts the configuration the source documents (variant 0)
		tee.v = tee.hyps[0].fail
		d.variant = 0
		return r
	}
	if len(alive) < len(tee.hyps) && alive[0].variant != 0 && !tee.variantNoted {
		tee.variantNoted = true
		d.t.Probe("yields-explained-by-another-parse-configuration")
	}
	tee.hyps = alive
	d.variant = alive[0].variant
	minPos := len(d.ents)
	for _, h := range alive {
		if h.positions[0] < minPos {
			minPos = h.positions[0]
		}
	}
	for i := tee.pos; i < minPos; i++ {
		if e := d.ents[i]; e.note != "" {
			d.t.Probe("fault-fired:" + e.note)
		}
	}
	tee.pos = minPos
	tee.done = alive[0].done
	tee.yielded = alive[0].yielded
	return r
}

// observe updates hypothesis h with one observation (r == nil: end of stream). It returns a short
// description for the event log and sets h.fail when the observation contradicts h.
func (tee *c19Tee) observe(h *c19Hyp, r *gtfs.Realtime, got string, call int) string {
	d := tee.d
	failf := func(class, sig, detail string) {
		h.fail = &sim.Violation{Class: class, Signature: "C19:" + sig, Detail: detail}
	}
	if r == nil {
		ok := false
		var blocker *dirEntry
		for _, p := range h.positions {
			fine := true
			for i := p; i < len(d.ents); i++ {
				if !tee.maySkip(d.ents[i]) {
					fine = false
					blocker = d.ents[i]
					break
				}
			}
			if fine {
				ok = true
				break
			}
		}
		if !ok {
			failf("stream-ended-early", "ended-early", fmt.Sprintf("Next#%d returned nil but %q (%s) is readable and parseable and was never yielded", call, blocker.name, entKindNames[blocker.kind]))
			return "nil"
		}
		h.positions = []int{len(d.ents)}
		h.done = true
		return "nil"
	}
	if h.done {
		failf("not-ended", "value-after-end", fmt.Sprintf("Next#%d returned a value after the stream had ended", call))
		return "value"
	}
	nextSet := map[int]bool{}
	var matched *dirEntry
	var must *dirEntry
	for _, p := range h.positions {
		for i := p; i < len(d.ents); i++ {
			e := d.ents[i]
			al := d.allowed(e)
			if contains(al, got) {
				if !nextSet[i+1] && matched == nil {
					matched = e
				}
				nextSet[i+1] = true
			}
			if !contains(al, skipOutcome) {
				if !contains(al, got) && must == nil {
					must = e
				}
				break
			}
		}
	}
	if len(nextSet) == 0 {
		sig, class := "unexpected-value", "unexpected"
		minPos := h.positions[0]
		for j := 0; j < len(d.ents); j++ {
			if contains(d.allowed(d.ents[j]), got) {
				if j < minPos {
					sig, class = "duplicate-or-out-of-order", "order"
				} else {
					sig, class = "skipped-good-file", "skipped-good"
				}
				break
			}
		}
		detail := fmt.Sprintf("Next#%d yielded a value that no not-yet-consumed entry can produce at this point (%s)", call, sig)
		if must != nil {
			detail = fmt.Sprintf("Next#%d should have yielded %q (%s) but yielded something else (%s)", call, must.name, entKindNames[must.kind], sig)
		}
		failf(class, sig, detail)
		return "value"
	}
	h.positions = h.positions[:0]
	for p := range nextSet {
		h.positions = append(h.positions, p)
	}
	sort.Ints(h.positions)
	if len(h.positions) > 1 {
		d.t.Probe("ambiguous-position")
	}
	h.yielded = append(h.yielded, tee.bytesFor(matched, got))
	return fmt.Sprintf("%q (%s)", matched.name, entKindNames[matched.kind])
}

// c19Case is a generated base directory.
type c19Case struct {
	// outcome caches shared by every directory materialised from this case (enumerated variants)
	cache     map[uint64]string
	hashes    map[*byte]contentHash
	dirName   string // name of the directory under test ("" = "d")
	decoyName string
	good      [][]byte
	extra     [][]byte
	entries   []dirEntry // unsorted, as generated
}

func genC19Case(t *sim.T, tier string) *c19Case {
	cfg := gen.DrawWorldCfg(t)
	cfg.Nyct = !t.Chance(1, 6)
	cfg.ExplicitTime = true
	w := gen.NewWorld(t, cfg)
	nGood := t.Choose(9)
	large := t.Chance(1, 12)
	if large {
		nGood = t.Range(9, 36) // large directories: batching / growth thresholds in the listing code
		if t.Chance(1, 8) {
			// very large directories (listing in batches of 100, 256, 1024, ...)
			sizes, weights := []int{130, 300, 600, 1100, 2100, 4200}, []int{4, 3, 3, 3, 0, 0}
			if tier == "thorough" {
				weights = []int{4, 3, 3, 3, 2, 1}
			}
			nGood = sizes[t.Weighted(weights...)] + t.Choose(40)
			t.Probe("huge-directory")
		}
	}
	c := &c19Case{}
	if t.Chance(1, 5) {
		// the directory's own name is odd too (pattern metacharacters, spaces, non-ASCII)
		k := t.Choose(8)
		c.dirName = []string{"d[1]", "line[A", "a*b", "q?x", "back\\slash", "sp ace", "ü-dir", "{a,b}"}[k]
		c.decoyName = []string{"d1", "lineA", "aXb", "qYx", "backslash", "space", "u-dir", "a"}[k]
		t.Probe("odd-directory-name")
	}
	// the good files of one case are bounded in total size: a very large directory of very large feeds
	// (300 trips on 45-stop lines in 1100 files) costs the harness itself several GiB and says nothing more
	// about the source than the same directory cut short
	budget, total := 6<<20, 0
	if tier == "thorough" {
		budget = 40 << 20
	}
	for len(c.extra) < 2 {
		b := gen.MarshalFeed(w.Tick())
		if len(c.good) < nGood {
			c.good = append(c.good, b)
			if total += len(b); total > budget {
				nGood = len(c.good)
				t.Probe("directory-cut-at-byte-budget")
			}
		} else {
			c.extra = append(c.extra, b)
		}
	}
	// non-canonical but valid serialisations (field order, unknown fields, over-long varints)
	for i := range c.good {
		if t.Chance(1, 8) {
			if nb, d := gen.ReorderWire(t, c.good[i]); d != "" {
				c.good[i] = nb
				t.Probe("non-canonical-wire-order")
			}
		}
	}
	// a good file that carries alerts and no trips at all (it still marks every active trip past)
	if len(c.good) >= 2 && t.Chance(1, 6) {
		i := 1 + t.Choose(len(c.good)-1)
		c.good[i] = alertsOnlyFeed(uint64(gen.Epoch + 4000 + i))
		t.Probe("alerts-only-good-file")
	}
	// size thresholds of the read path: now and then one or two good files are far larger than the rest
	if len(c.good) > 0 && t.Chance(1, 10) {
		for k := t.Range(1, 2); k > 0; k-- {
			i := t.Choose(len(c.good))
			size := []int{70_000, 140_000, 300_000, 600_000}[t.Choose(4)] + t.Choose(5000)
			if t.Chance(1, 2) {
				// a file whose total size is exactly (or one off) a power-of-two multiple: chunked readers
				total := []int{4096, 8192, 16384, 32768, 65536, 131072, 262144}[t.Choose(7)] * (1 + t.Choose(2))
				c.good[i] = bloatFeedTo(c.good[i], total+t.Choose(3)-1)
				t.Probe("boundary-size-file")
			} else {
				c.good[i] = bloatFeed(c.good[i], size)
			}
			t.Probe("large-good-file")
		}
	}
	// thorough tier, rarely: one good file beyond 16, 64 or 128 MiB (read limits, 32-bit sizes of buffers)
	if tier == "thorough" && len(c.good) > 0 && len(c.good) <= 40 && t.Chance(1, c19GiantOdds) {
		i := t.Choose(len(c.good))
		// padded with one unknown length-delimited field (a parser skips it; the result and its dump stay small: a
		// 128 MiB description text, dumped once per parse hypothesis, cost the harness itself more than 5 GiB)
		c.good[i] = padUnknown(c.good[i], []int{16 << 20, 64 << 20, 128 << 20}[t.Choose(3)]+t.Choose(4096))
		t.Probe("giant-good-file")
	}
	if os.Getenv("VERIF_C19_DEBUG") != "" {
		tb, mx := 0, 0
		for _, g := range c.good {
			tb += len(g)
			if len(g) > mx {
				mx = len(g)
			}
		}
		fmt.Fprintf(os.Stderr, "[c19-debug] good files %d, total %d bytes, largest %d bytes, trips per feed cfg %d, long lines %v\n", len(c.good), tb, mx, cfg.Trips, cfg.LongLines)
	}
	nBad := t.Choose(7)
	if !large && nGood+nBad > 14 {
		nBad = 14 - nGood
	}
	// long runs of bad entries (a hundred unreadable or unparseable entries in a row, at the very beginning
	// or somewhere in the middle), as a directory that also collects logs or temporary files has
	badRun, badRunPrefix, subdirRun := 0, "", false
	if t.Chance(1, 40) {
		badRun = []int{20, 100, 101, 150, 300}[t.Choose(5)]
		badRunPrefix = []string{"", "0", "1705312845"}[t.Choose(3)] // sorts first / among the ordered names
		subdirRun = t.Chance(1, 2)
		t.Probe("long-run-of-bad-entries")
	}
	used := map[string]bool{}
	ordered := t.Chance(1, 2) // names that follow time order (like real archives) or arbitrary names
	nameStyle := t.Choose(5)
	for i, g := range c.good {
		name := ""
		if ordered {
			// names that spell the time of the snapshot, in the notations archives use; with UTC offsets that
			// vary from file to file the order of the names is not the order of the instants
			at := time.Unix(int64(gen.Epoch+i*30), 0)
			switch nameStyle {
			case 0, 1:
				name = fmt.Sprintf("%010d.gtfsrt", gen.Epoch+i*30)
			case 2:
				name = at.UTC().Format(time.RFC3339) + ".gtfsrt"
			case 3:
				off := []int{-5 * 3600, -4 * 3600, 0, 9 * 3600, 5*3600 + 1800}[t.Choose(5)]
				name = at.In(time.FixedZone("", off)).Format(time.RFC3339) + ".gtfsrt"
				t.Probe("names-rfc3339-mixed-offsets")
			case 4:
				name = at.UTC().Format("20060102-150405") + ".pb"
			}
			if used[name] {
				name = fmt.Sprintf("%s.%d", name, i)
			}
			used[name] = true
		} else {
			name = drawName(t, used, i)
		}
		c.entries = append(c.entries, dirEntry{name: name, kind: kGood, data: g})
	}
	for i := 0; i < badRun; i++ {
		name := fmt.Sprintf("%s!bad%04d", badRunPrefix, i)
		if used[name] {
			continue
		}
		used[name] = true
		k := []entKind{kEmpty, kGarbage, kSubdir}[i%3]
		if subdirRun {
			k = kSubdir
		}
		e := dirEntry{name: name, kind: k}
		if k == kGarbage {
			e.data = []byte{0xde, 0xad, byte(i)}
		} else if k == kEmpty {
			e.data = []byte{}
		}
		c.entries = append(c.entries, e)
	}
	for i := 0; i < nBad; i++ {
		k := entKind(1 + t.Choose(int(numEntKinds)-1))
		e := dirEntry{kind: k}
		if ordered && t.Chance(2, 3) {
			e.name = fmt.Sprintf("%010d.gtfsrt", gen.Epoch+t.Choose(10)*30-15+t.Choose(3))
			if used[e.name] {
				e.name = drawName(t, used, 100+i)
			}
			used[e.name] = true
		} else {
			e.name = drawName(t, used, 100+i)
		}
		src := []byte{}
		if len(c.good) > 0 {
			src = c.good[t.Choose(len(c.good))]
		} else {
			src = c.extra[0]
		}
		switch k {
		case kEmpty:
			e.data = []byte{}
		case kTruncated:
			if len(src) > 1 {
				e.data = append([]byte(nil), src[:t.Range(1, len(src)-1)]...)
			} else {
				e.data = []byte{}
			}
		case kBitflip:
			e.data = append([]byte(nil), src...)
			for n := t.Range(1, 3); n > 0 && len(e.data) > 0; n-- {
				e.data[t.Choose(len(e.data))] ^= byte(1 << t.Choose(8))
			}
		case kGarbage:
			e.data = garbage(t)
		case kLinkToGood:
			e.data = c.extra[1]
		}
		c.entries = append(c.entries, e)
	}
	return c
}

// alertsOnlyFeed is a valid message with one route alert and no trip or vehicle entity.
func alertsOnlyFeed(ts uint64) []byte {
	v, id, route, txt, lang := "1.0", "lmm:alert:only", "L", "Delays on the L", "en"
	m := &gtfsrt.FeedMessage{Header: &gtfsrt.FeedHeader{GtfsRealtimeVersion: &v, Timestamp: &ts}, Entity: []*gtfsrt.FeedEntity{{Id: &id, Alert: &gtfsrt.Alert{
		InformedEntity: []*gtfsrt.EntitySelector{{RouteId: &route}},
		HeaderText:     &gtfsrt.TranslatedString{Translation: []*gtfsrt.TranslatedString_Translation{{Text: &txt, Language: &lang}}},
	}}}}
	return gen.MarshalFeed(m)
}

// bloatFeed appends an alert entity with a long description to a serialised feed (protobuf messages
// concatenate), making the file size bytes larger while keeping it a valid, distinct message.
func bloatFeed(b []byte, size int) []byte {
	text := strings.Repeat("service notice ", size/15+1)[:size]
	id := fmt.Sprintf("bloat-%d", size)
	lang := "en"
	extra := &gtfsrt.FeedMessage{Entity: []*gtfsrt.FeedEntity{{Id: &id, Alert: &gtfsrt.Alert{
		InformedEntity:  []*gtfsrt.EntitySelector{{AgencyId: &lang}},
		DescriptionText: &gtfsrt.TranslatedString{Translation: []*gtfsrt.TranslatedString_Translation{{Text: &text, Language: &lang}}},
	}}}}
	eb, err := proto.MarshalOptions{AllowPartial: true}.Marshal(extra)
	if err != nil {
		panic("harness: " + err.Error())
	}
	return append(append([]byte(nil), b...), eb...)
}

// padUnknown appends field 9999 (length-delimited, n zero bytes) to a serialised FeedMessage.
func padUnknown(b []byte, n int) []byte {
	out := append([]byte(nil), b...)
	out = protowire.AppendTag(out, 9999, protowire.BytesType)
	out = protowire.AppendVarint(out, uint64(n))
	return append(out, make([]byte, n)...)
}

// bloatFeedTo bloats a feed so that the file is exactly total bytes long (if total is large enough).
func bloatFeedTo(b []byte, total int) []byte {
	if total <= len(b)+64 {
		return b
	}
	pad := total - len(b) - 40
	for k := 0; k < 12; k++ {
		out := bloatFeed(b, pad)
		if len(out) == total {
			return out
		}
		pad -= len(out) - total
		if pad < 1 {
			return b
		}
	}
	return bloatFeed(b, pad)
}

// runOnce materialises the case, applies plan and checks everything. Returns the violation.
// openDescriptors counts this process's open file descriptors.
func openDescriptors() int {
	ents, err := os.ReadDir("/proc/self/fd")
	if err != nil {
		return -1
	}
	return len(ents)
}

func runC19Once(t *sim.T, c *c19Case, plan c19Plan, extraCalls int, log bool) (viol *sim.Violation) {
	// Descriptor accounting: the workers of this check run with a low descriptor limit. A source that leaves
	// descriptors open (one per skipped entry, say) runs dry inside a long directory and then skips good
	// files; what it still holds after the stream has ended is reported as well.
	for k := 0; k < 40; k++ {
		if n := openDescriptors(); n >= 0 && n <= 40 {
			break // (n < 0: not even /proc/self/fd can be opened any more)
		}
		runtime.GC() // let finalizers of an earlier run's leaked files release them, so the harness can work
		time.Sleep(3 * time.Millisecond)
	}
	fdBefore := openDescriptors()
	defer func() {
		if viol == nil && fdBefore >= 0 {
			if after := openDescriptors(); after > fdBefore+8 {
				viol = &sim.Violation{Class: "descriptor-leak", Signature: "C19:descriptor-leak", Detail: fmt.Sprintf("after the stream ended the process holds %d more open file descriptors than before the source was created (%d entries in the directory): the source leaks descriptors and will start skipping readable files once it runs dry", after-fdBefore, len(c.entries))}
			}
		}
	}()
	dirSeq++
	root := filepath.Join(ScratchBase(), fmt.Sprintf("r%d", dirSeq))
	dirName := "d"
	if c.dirName != "" {
		dirName = c.dirName
	}
	if c.cache == nil {
		c.cache, c.hashes = map[uint64]string{}, map[*byte]contentHash{}
	}
	d := &dirSim{t: t, root: root, dir: filepath.Join(root, dirName), cache: c.cache, hashes: c.hashes}
	if err := os.MkdirAll(d.dir, 0o755); err != nil {
		panic("harness: " + err.Error())
	}
	os.MkdirAll(filepath.Join(root, "x"), 0o755)
	defer os.RemoveAll(root)
	// a sibling directory whose name is what the directory's name would match if it were (wrongly)
	// interpreted as a pattern; it holds a decoy feed that must never be yielded
	if c.decoyName != "" && c.decoyName != dirName {
		dp := filepath.Join(root, c.decoyName)
		if os.MkdirAll(dp, 0o755) == nil {
			os.WriteFile(filepath.Join(dp, "000-decoy"), c.extra[0], 0o644)
		}
	}

	for i := range c.entries {
		e := c.entries[i] // copy
		e.exists = true
		switch e.kind {
		case kGood, kEmpty, kTruncated, kBitflip, kGarbage, kLinkToGood:
			e.isFile = true
		}
		d.events = append(d.events, e.name)
		d.materialise(&e, c.extra[0])
		d.ents = append(d.ents, &e)
	}
	sort.Slice(d.ents, func(a, b int) bool { return d.ents[a].name < d.ents[b].name })
	if log {
		for _, e := range d.ents {
			t.Logf("entry %q: %s (%d bytes)", e.name, entKindNames[e.kind], len(e.data))
		}
	}

	var src *journal.DirectoryGtfsrtSource
	var err error
	pv, stack := guard(func() { src, err = journal.NewDirectoryGtfsrtSource(d.dir) })
	if pv != nil {
		return &sim.Violation{Class: "panic", Signature: "C19:panic:" + panicSig(pv, stack), Detail: fmt.Sprintf("NewDirectoryGtfsrtSource panicked: %v", pv)}
	}
	if err != nil || src == nil {
		return &sim.Violation{Class: "constructor-error", Signature: "C19:constructor-error", Detail: "NewDirectoryGtfsrtSource failed on a readable directory: " + errString(err)}
	}
	t.Logf("list (%d entries)", len(d.ents))

	tee := &c19Tee{d: d, src: src, plan: plan, extraGen: c.extra, stallBefore: plan.stallBefore}
	var j *journal.Journal
	winStart, winEnd := time.Unix(0, 0), time.Unix(1<<40, 0)
	pv, stack = guard(func() { j = journal.BuildJournal(tee, winStart, winEnd) })
	journalPanicked := pv != nil
	if tee.v != nil {
		return tee.v
	}
	if journalPanicked {
		// decide whether this is the directory source's doing: replay the same good feeds through a slice source
		t.Probe("journal-panicked")
	}
	if !tee.done && !journalPanicked {
		return &sim.Violation{Class: "harness", Signature: "C19:journal-stopped-before-nil", Detail: "BuildJournal returned before the source returned nil"}
	}
	// bounded termination: the stream was drained by at most yields+1 calls
	if !journalPanicked && tee.call != len(tee.yielded)+1 {
		return &sim.Violation{Class: "progress", Signature: "C19:call-count", Detail: fmt.Sprintf("%d calls for %d yields", tee.call, len(tee.yielded))}
	}
	// nil is sticky
	if !journalPanicked {
		for k := 0; k < extraCalls; k++ {
			var r *gtfs.Realtime
			pv, stack := guard(func() { r = tee.Next() })
			if pv != nil {
				return &sim.Violation{Class: "panic", Signature: "C19:panic:" + panicSig(pv, stack), Detail: "Next after end panicked"}
			}
			if tee.v != nil {
				return tee.v
			}
			if r != nil {
				return &sim.Violation{Class: "not-ended", Signature: "C19:value-after-end", Detail: "Next returned a value after nil"}
			}
		}
	}
	// reference journal from the good files alone
	ref := &sliceSource{}
	for _, b := range tee.yielded {
		r, err, pv2, _ := parseRT(append([]byte(nil), b...), c19Variants[d.variant].Fresh())
		if pv2 != nil || err != nil {
			return &sim.Violation{Class: "harness", Signature: "C19:harness-reference-parse", Detail: "reference parse of a yielded image failed"}
		}
		ref.items = append(ref.items, r)
	}
	var jr *journal.Journal
	pv2, _ := guard(func() { jr = journal.BuildJournal(ref, winStart, winEnd) })
	if pv2 != nil || journalPanicked {
		if (pv2 != nil) != journalPanicked {
			return &sim.Violation{Class: "journal", Signature: "C19:journal-panic-differs", Detail: fmt.Sprintf("BuildJournal panicked on one source only (dir=%v ref=%v): %v %s", journalPanicked, pv2 != nil, pv, sim.Clip(stack, 300))}
		}
		t.Probe("journal-skipped-both-panicked") // C05's business
		return nil
	}
	dj, dr := sim.Dump(j, nil), sim.Dump(jr, nil)
	if dj != dr {
		return &sim.Violation{Class: "journal", Signature: "C19:journal-differs:" + sim.DiffPath(dj, dr), Detail: "journal built from the directory differs from the journal built from its good files: " + sim.FirstDiff(dj, dr)}
	}
	var ex, exr *journal.CsvExport
	var e1, e2 error
	pv3, _ := guard(func() { ex, e1 = j.ExportToCsv(); exr, e2 = jr.ExportToCsv() })
	if pv3 == nil && e1 == nil && e2 == nil {
		if !bytes.Equal(ex.TripsCsv, exr.TripsCsv) || !bytes.Equal(ex.StopTimesCsv, exr.StopTimesCsv) {
			return &sim.Violation{Class: "journal", Signature: "C19:export-differs", Detail: "CSV export differs"}
		}
	}
	t.Probe("journal-compared")
	if len(j.Trips) > 0 {
		t.Probe("journal-nonempty")
	}
	return nil
}

func layoutSig(c *c19Case) (sig string, badThenGood bool, nGood, nBad int) {
	idx := make([]int, len(c.entries))
	for i := range idx {
		idx[i] = i
	}
	sort.Slice(idx, func(a, b int) bool { return c.entries[idx[a]].name < c.entries[idx[b]].name })
	var sb strings.Builder
	seenBad := false
	for _, i := range idx {
		e := c.entries[i]
		fmt.Fprintf(&sb, "%s:%d;", e.name, e.kind)
		if e.kind == kGood || e.kind == kLinkToGood {
			nGood++
			if seenBad {
				badThenGood = true
			}
		} else {
			nBad++
			seenBad = true
		}
	}
	return sb.String(), badThenGood, nGood, nBad
}

// runC19CLI runs the built command line tool (`gtfs journal -o <out> <dir>`) as a sub-process on the
// case's directory (listing-time bad entries only: there is no instant between listing and read the
// simulator could own in another process) and compares its two CSV files with the export of the
// reference journal.
func runC19CLI(t *sim.T, c *c19Case) *sim.Violation {
	cli := os.Getenv("VERIF_CLI")
	if cli == "" {
		return nil
	}
	dirSeq++
	root := filepath.Join(ScratchBase(), fmt.Sprintf("cli%d", dirSeq))
	d := &dirSim{t: t, root: root, dir: filepath.Join(root, "d"), cache: map[uint64]string{}, hashes: map[*byte]contentHash{}}
	outDir := filepath.Join(root, "out")
	for _, p := range []string{d.dir, filepath.Join(root, "x"), outDir} {
		if err := os.MkdirAll(p, 0o755); err != nil {
			panic("harness: " + err.Error())
		}
	}
	defer os.RemoveAll(root)
	// Half of the command runs (when the harness is root and the sandbox lets it) execute the tool as another,
	// unprivileged user: the files are then readable but not its own, and a file without read permission is one
	// more kind of entry that cannot be read.
	unpriv := t.Chance(1, 2) && cliUnprivileged(cli)
	if unpriv {
		t.Probe("cli-run-as-other-user")
		os.Chmod(ScratchBase(), 0o755)
		os.Chmod(outDir, 0o777)
	}
	for i := range c.entries {
		e := c.entries[i]
		e.exists = true
		switch e.kind {
		case kGood, kEmpty, kTruncated, kBitflip, kGarbage, kLinkToGood:
			e.isFile = true
		}
		d.events = append(d.events, e.name)
		d.materialise(&e, c.extra[0])
		if unpriv && e.kind == kGood && t.Chance(1, 8) {
			if os.Chmod(filepath.Join(d.dir, e.name), 0) == nil {
				e.isFile = false
				t.Logf("entry %q: no read permission for the user the tool runs as", e.name)
				t.Probe("cli-entry-without-read-permission")
			}
		}
		d.ents = append(d.ents, &e)
	}
	sort.Slice(d.ents, func(a, b int) bool { return d.ents[a].name < d.ents[b].name })
	// one reference per candidate parse configuration (see c19Variants); the command's output must
	// equal the export of at least one of them
	refs := make([]*sliceSource, len(c19Variants))
	nGoodFiles := 0
	for v := range c19Variants {
		refs[v] = &sliceSource{}
		for _, e := range d.ents {
			if !e.isFile {
				continue
			}
			r, err, pv, _ := parseRT(append([]byte(nil), e.data...), c19Variants[v].Fresh())
			if pv == nil && err == nil {
				refs[v].items = append(refs[v].items, r)
			}
		}
		if v == 0 {
			nGoodFiles = len(refs[v].items)
		}
	}
	// the command's window is [1970-01-01, the moment it runs]: the reference uses the same window, taken
	// just before and just after the sub-process; if the two references differ (a trip starts in
	// between) the comparison is skipped
	export := func(v int, end time.Time) (*journal.CsvExport, bool) {
		src := &sliceSource{items: refs[v].items}
		var jr *journal.Journal
		pv, _ := guard(func() { jr = journal.BuildJournal(src, time.Unix(0, 0), end) })
		if pv != nil {
			return nil, false // C05's business
		}
		e, err := jr.ExportToCsv()
		if err != nil {
			return nil, false
		}
		return e, true
	}
	wants := make([]*journal.CsvExport, len(c19Variants))
	for v := range c19Variants {
		w, ok := export(v, time.Now())
		if !ok {
			return nil
		}
		wants[v] = w
	}
	cmd := exec.Command(cli, "journal", "-o", outDir, d.dir)
	if unpriv {
		cmd.SysProcAttr = &syscall.SysProcAttr{Credential: &syscall.Credential{Uid: 65534, Gid: 65534}}
	}
	out, err := cmd.CombinedOutput()
	t.Probe("cli-run")
	for v := range c19Variants {
		if want2, ok2 := export(v, time.Now()); !ok2 || !bytes.Equal(wants[v].TripsCsv, want2.TripsCsv) || !bytes.Equal(wants[v].StopTimesCsv, want2.StopTimesCsv) {
			t.Probe("cli-window-moved-skip")
			return nil
		}
	}
	if err != nil {
		return &sim.Violation{Class: "cli", Signature: "C19:cli-failed", Detail: fmt.Sprintf("gtfs journal failed on a directory with %d entries: %v: %s", len(d.ents), err, sim.Clip(string(out), 400))}
	}
	gotTrips, e1 := os.ReadFile(filepath.Join(outDir, "trips.csv"))
	gotStops, e2 := os.ReadFile(filepath.Join(outDir, "stop_times.csv"))
	if e1 != nil || e2 != nil {
		return &sim.Violation{Class: "cli", Signature: "C19:cli-no-output", Detail: "gtfs journal did not write its CSV files"}
	}
	matchAny := false
	for v := range c19Variants {
		if bytes.Equal(gotTrips, wants[v].TripsCsv) && bytes.Equal(gotStops, wants[v].StopTimesCsv) {
			matchAny = true
			break
		}
	}
	if !matchAny {
		return &sim.Violation{Class: "cli", Signature: "C19:cli-export-differs", Detail: fmt.Sprintf("the CSV files written by `gtfs journal` differ from the export of the journal built from the directory's good files (%d entries, %d good)", len(d.ents), nGoodFiles)}
	}
	return nil
}

// c19GiantOdds: one thorough run in this many has a giant good file (VERIF_C19_GIANT_ODDS overrides it for
// sensitivity experiments; part of the batch configuration like the seed).
var c19GiantOdds = func() int {
	if n, err := strconv.Atoi(os.Getenv("VERIF_C19_GIANT_ODDS")); err == nil && n > 0 {
		return n
	}
	return 1500
}()

var cliUnprivState int // 0 unknown, 1 available, 2 not available

// cliUnprivileged reports (once per process) whether the tool can be executed as user 65534 at all: the harness
// must be root and the binary must be reachable for that user. Anything else disables the mode; it never alarms.
func cliUnprivileged(cli string) bool {
	if cliUnprivState == 0 {
		cliUnprivState = 2
		if os.Geteuid() == 0 {
			cmd := exec.Command(cli, "help")
			cmd.SysProcAttr = &syscall.SysProcAttr{Credential: &syscall.Credential{Uid: 65534, Gid: 65534}}
			err := cmd.Run()
			if _, isExit := err.(*exec.ExitError); err == nil || isExit {
				cliUnprivState = 1
			}
		}
	}
	return cliUnprivState == 1
}

func runC19(t *sim.T, tier string) *sim.Violation {
	c := genC19Case(t, tier)
	if (tier == "thorough" && t.Chance(1, 40)) || (tier != "thorough" && t.Chance(1, 60)) {
		for _, e := range c.entries {
			t.Logf("entry %q: %s (%d bytes)", e.name, entKindNames[e.kind], len(e.data))
		}
		t.Logf("run the command line tool on this directory")
		if v := runC19CLI(t, c); v != nil {
			return v
		}
	}
	lsig, btg, nGood, nBad := layoutSig(c)
	if btg {
		t.Probe("bad-then-good")
	}
	if nGood == 0 && nBad > 0 {
		t.Probe("all-bad-dir")
	}
	if nGood == 0 && nBad == 0 {
		t.Probe("empty-dir")
	}
	for _, e := range c.entries {
		t.Fault("listed:" + entKindNames[e.kind])
	}
	t.SimTime = float64(len(c.good)) * 60

	totalBytes := 0
	for _, e := range c.entries {
		totalBytes += len(e.data)
	}
	// every enumerated variant re-creates the directory: only for small ones
	enumerate := t.Chance(1, 6) && len(c.entries) <= 10 && totalBytes < 100_000
	if !enumerate {
		plan := c19Plan{faults: map[int][]c19Fault{}}
		nf := t.Weighted(3, 3, 2, 1, 1)
		var psig strings.Builder
		for i := 0; i < nf; i++ {
			at := t.Choose(len(c.entries) + 1)
			f := c19Fault{pick: t.Choose(16), kind: t.Weighted(8, 4, 4, 2, 2, 1, 2), arg: t.Choose(256)}
			plan.faults[at] = append(plan.faults[at], f)
			fmt.Fprintf(&psig, "%d:%d:%d:%d;", at, f.pick, f.kind, f.arg)
		}
		if t.Chance(1, 300) && len(c.entries) > 0 {
			plan.stallBefore = 1 + t.Range(1, len(c.entries))
			fmt.Fprintf(&psig, "stall%d", plan.stallBefore)
		}
		t.Case = sim.HashStrings(lsig, psig.String())
		t.Nontriv = btg || (nf > 0 && nGood > 0)
		return runC19Once(t, c, plan, t.Choose(4), true)
	}
	// enumeration of every single placement on this base: (a) each entry replaced by each bad kind at
	// listing, (b) each (call gap, not-yet-read pick, fault kind) single post-listing fault.
	t.Probe("enumerating-run")
	first := true
	n := 0
	try := func(c2 *c19Case, plan c19Plan, desc string) *sim.Violation {
		n++
		l2, btg2, g2, _ := layoutSig(c2)
		if btg2 || (len(plan.faults) > 0 && g2 > 0) {
			t.Cases = append(t.Cases, sim.HashStrings(l2, desc))
		}
		mark := len(t.Events)
		v := runC19Once(t, c2, plan, 1, first)
		first = false
		if v != nil {
			t.Logf("enumerated variant: %s", desc)
			v.Detail = "[variant " + desc + "] " + v.Detail
			return v
		}
		// keep the log of the base only
		if mark < len(t.Events) && n > 1 {
			t.Events = t.Events[:mark]
		}
		return nil
	}
	if v := try(c, c19Plan{}, "base"); v != nil {
		return v
	}
	for i := range c.entries {
		for k := entKind(1); k < numEntKinds; k++ {
			if c.entries[i].kind == k {
				continue
			}
			if c.cache == nil {
				c.cache, c.hashes = map[uint64]string{}, map[*byte]contentHash{}
			}
			c2 := &c19Case{good: c.good, extra: c.extra, entries: append([]dirEntry(nil), c.entries...), cache: c.cache, hashes: c.hashes, dirName: c.dirName, decoyName: c.decoyName}
			e := &c2.entries[i]
			src := c.extra[0]
			if e.kind == kGood {
				src = e.data
			}
			e.kind = k
			switch k {
			case kEmpty:
				e.data = []byte{}
			case kTruncated:
				e.data = append([]byte(nil), src[:len(src)/2]...)
			case kBitflip:
				e.data = append([]byte(nil), src...)
				e.data[len(e.data)/2] ^= 0x10
			case kGarbage:
				e.data = []byte{0xde, 0xad, 0xbe, 0xef}
			case kLinkToGood:
				e.data = c.extra[1]
			default:
				e.data = nil
			}
			if v := try(c2, c19Plan{}, fmt.Sprintf("entry %q -> %s", e.name, entKindNames[k])); v != nil {
				return v
			}
		}
	}
	for at := 0; at <= len(c.entries); at++ {
		for pick := 0; pick < len(c.entries); pick++ {
			for kind := 0; kind < len(c19FaultNames); kind++ {
				plan := c19Plan{faults: map[int][]c19Fault{at: {{pick: pick, kind: kind, arg: 3}}}}
				if v := try(c, plan, fmt.Sprintf("before Next#%d %s pick %d", at, c19FaultNames[kind], pick)); v != nil {
					return v
				}
			}
		}
	}
	t.Extra["enumerated_variants"] += n
	t.Case = sim.HashStrings(lsig, "enum")
	t.Nontriv = btg
	return nil
}
