package props

import (
	"bytes"
	"crypto/sha256"
	"fmt"
	"os"
	"runtime"
	"sort"
	"strconv"
	"strings"
	"time"

	"github.com/jamespfennell/gtfs"
	"github.com/jamespfennell/gtfs/extensions"
	gtfsrt "github.com/jamespfennell/gtfs/proto"
	"github.com/jamespfennell/gtfs/verifhook"

	"verif/gen"
	"verif/sim"
)

// Engine sched (C18): caller goroutines interleaved by a seeded cooperative scheduler at extension-
// interface calls and tagged yield hooks; Go race detector with the scheduler's own synchronisation
// hidden from it; each call must equal the same call run alone on fresh objects.

func init() {
	register(&Engine{
		Prop:  "C18",
		Name:  "sched",
		Level: "exploration",
		Race:  true,
		Rule: "a case is one schedule (sequence of task@site steps) over a drawn task set; distinct = distinct hash of (task programs, schedule); " +
			"non-trivial = at least one context switch happened at a yield point inside a parse while another task was inside a parse, and at least two tasks shared an input buffer or an options/extension object",
		Run: runC18,
		Budget: func(tier string) (int, time.Duration) {
			if tier == "thorough" {
				return 400000, 20 * time.Minute
			}
			return 6000, 50 * time.Second
		},
		Real:  []string{"gtfs.ParseRealtime", "gtfs.ParseStatic", "csv.File", "nycttrips and nyctalerts extensions (all option combinations)", "Trip.Hash / Vehicle.Hash / Stop.Root / getters", "Go race detector (ThreadSanitizer)", "AST-instrumented scratch copy of the working tree (yield points only)", "fresh child processes of the same harness binary (solo-result digests, also in the opposite call order)"},
		Stubs: []string{"caller tasks and their programs", "cooperative scheduler", "yield-point proxy around the extension object", "shared input pool (world publisher / static table model)"},
		Assume: []string{
			"pre-emption happens only at yield points (extension interface calls, csv.NextRow, the two entity loops of ParseRealtime, task-level points); the race detector still sees every access",
			"collections whose order is map-dependent (C06's business) are compared after sorting",
			"tasks read only their own results (the property promises safety for results returned by different calls)",
		},
		MandatoryProbes: []string{"switch-inside-parse", "shared-options", "shared-extension-object", "shared-input"},
	})
}

// extProxy wraps the real extension and yields around every call through the interface.
type extProxy struct {
	inner extensions.Extension
	s     *sim.Sched
}

func (p extProxy) UpdateTrip(trip *gtfsrt.TripUpdate, feedCreatedAt uint64) extensions.UpdateTripResult {
	p.s.Yield("ext.UpdateTrip")
	r := p.inner.UpdateTrip(trip, feedCreatedAt)
	p.s.Yield("ext.UpdateTrip.after")
	return r
}
func (p extProxy) UpdateVehicle(v *gtfsrt.VehiclePosition) {
	p.s.Yield("ext.UpdateVehicle")
	p.inner.UpdateVehicle(v)
}
func (p extProxy) UpdateAlert(id *string, a *gtfsrt.Alert) bool {
	p.s.Yield("ext.UpdateAlert")
	r := p.inner.UpdateAlert(id, a)
	p.s.Yield("ext.UpdateAlert.after")
	return r
}
func (p extProxy) GetTrack(u *gtfsrt.TripUpdate_StopTimeUpdate) *string {
	p.s.Yield("ext.GetTrack")
	return p.inner.GetTrack(u)
}

// NewFeed forwards the optional per-feed interface so that wrapping an extension does not hide it.
func (p extProxy) NewFeed() extensions.Extension {
	if pf, ok := p.inner.(interface{ NewFeed() extensions.Extension }); ok {
		return extProxy{inner: pf.NewFeed(), s: p.s}
	}
	return p
}

var c18Sites = []string{"ext.UpdateTrip", "ext.UpdateTrip.after", "ext.UpdateVehicle", "ext.UpdateAlert", "ext.UpdateAlert.after", "ext.GetTrack", "csv.NextRow", "rt.prepass", "rt.entity", "task.step", "task.read"}

type c18Op struct {
	kind    int // 0 realtime, 1 static
	input   int
	opts    int // index into shared pool, or -1 for private
	priv    ExtSpec
	inherit bool
}

type c18Result struct {
	dump  string
	hash  string
	pv    any
	stack string
}

// accessorsRT hashes every trip and vehicle; the per-item digests are sorted so that collection
// order (C06's business) does not matter here.
func accessorsRT(r *gtfs.Realtime) string {
	var items []string
	for i := range r.Trips {
		h := sha256.New()
		r.Trips[i].Hash(h)
		_ = r.Trips[i].GetVehicle()
		items = append(items, fmt.Sprintf("t%x", h.Sum(nil)[:8]))
	}
	for i := range r.Vehicles {
		h := sha256.New()
		r.Vehicles[i].Hash(h)
		_ = r.Vehicles[i].GetID()
		_ = r.Vehicles[i].GetTrip()
		items = append(items, fmt.Sprintf("v%x", h.Sum(nil)[:8]))
	}
	sort.Strings(items)
	return fmt.Sprintf("%016x", sim.HashStrings(items...))
}

// acyclic reports whether the parent graph is a forest (bounded walk).
func acyclic(s *gtfs.Static) bool {
	for i := range s.Stops {
		p := &s.Stops[i]
		for n := 0; p != nil; n++ {
			if n > len(s.Stops) {
				return false
			}
			p = p.Parent
		}
	}
	return true
}

func accessorsST(s *gtfs.Static) string {
	if !acyclic(s) {
		return "cyclic"
	}
	var sb strings.Builder
	for i := range s.Stops {
		sb.WriteString(s.Stops[i].Root().Id)
		sb.WriteByte(',')
	}
	return fmt.Sprintf("%016x", sim.HashStrings(sb.String()))
}

// c18GiantOdds: one thorough run in this many is the giant one (VERIF_C18_GIANT_ODDS overrides it for
// sensitivity experiments; the value is part of the batch configuration like the seed).
var c18GiantOdds = func() int {
	if n, err := strconv.Atoi(os.Getenv("VERIF_C18_GIANT_ODDS")); err == nil && n > 0 {
		return n
	}
	return 800
}()

func runC18(t *sim.T, tier string) *sim.Violation {
	// ---- shared inputs
	nRT := t.Range(1, 3)
	var rtIn [][]byte
	for i := 0; i < nRT; i++ {
		rtIn = append(rtIn, gen.MarshalFeed(gen.RichFeed(t)))
	}
	if t.Chance(1, 5) {
		// a message that does not parse: error paths run concurrently with successful parses
		src := rtIn[t.Choose(len(rtIn))]
		bad := append([]byte(nil), src[:t.Choose(len(src))]...)
		if t.Chance(1, 2) && len(bad) > 0 {
			bad[t.Choose(len(bad))] ^= 0x40
		}
		rtIn = append(rtIn, bad)
		nRT++
		t.Probe("unparseable-shared-input")
	}
	nST := t.Choose(3)
	staticHeavy := false
	// Thorough tier, rarely: one archive with more than 2^16 different head signs. It is parsed once alone
	// (the solo reference, which here comes first): process-wide tables that rotate or resize at such a size do
	// so during that parse. Two tasks then parse it again in the state after the threshold, pre-empted row by
	// row (tasks that merely follow one another are ordered for the race detector by the sync.Pool of
	// decompressors inside archive/zip, so the overlap has to be real).
	giant := tier == "thorough" && t.Chance(1, c18GiantOdds)
	if giant {
		nST = 1
		t.Probe("giant-distinct-text-archive")
	}
	var stIn [][]byte
	for i := 0; i < nST; i++ {
		scfg := gen.DrawStaticCfg(t, false)
		if giant {
			scfg = gen.GiantDistinctCfg(t)
		}
		if !giant && t.Chance(1, 4) {
			// long trips and many rows: per-trip work big enough for implementations to hand it to helpers
			scfg.StopTimesPerTrip = t.Range(30, 70)
			if scfg.Trips < 4 {
				scfg.Trips = 4 + t.Choose(8)
			}
			scfg.Interleave = t.Chance(1, 2)
			staticHeavy = true
		}
		m := gen.GenStatic(t, scfg)
		if !giant && t.Chance(1, 3) {
			// archives that fail part-way (empty or torn member, missing column, ...): error paths of one
			// caller run next to successful parses of the others
			if t.Chance(1, 2) {
				// a member that cannot even be opened as CSV (no header row): the open path fails and cleans up
				tb := m.Feed.Tables[t.Choose(len(m.Feed.Tables))]
				if t.Chance(1, 2) {
					tb = m.Feed.Table("agency.txt")
				}
				tb.Raw = []byte{}
				t.Logf("shared archive %d fault: %s is an empty member", i, tb.Name)
				t.Probe("faulted-shared-archive")
				staticHeavy = true
			} else {
				for n := t.Range(1, 2); n > 0; n-- {
					if d := gen.MutateStatic(t, m, gen.FocusAll); d != "" {
						t.Logf("shared archive %d fault: %s", i, d)
						t.Probe("faulted-shared-archive")
					}
				}
			}
		}
		zo := gen.DrawZipOpts(t, len(m.Feed.Tables))
		z := m.Feed.Zip(zo)
		if !giant && t.Chance(1, 8) {
			// a member that cannot be opened at all (unsupported method, encrypted flag, bad sizes): open-error paths
			if nz, d := gen.ZipHeaderFault(t, z); nz != nil {
				z = nz
				t.Logf("shared archive %d fault: %s", i, d)
				t.Probe("faulted-shared-archive")
				staticHeavy = true
			}
		}
		stIn = append(stIn, z)
		if !giant && t.Chance(1, 5) {
			// a sibling archive in which one member has other content of the same length and CRC-32
			if sib, d := gen.ForgeCRCSibling(t, m.Feed, zo); sib != nil {
				t.Logf("shared archive %d is a sibling of archive %d: %s", len(stIn), i, d)
				t.Probe("same-crc-sibling")
				stIn = append(stIn, sib.Zip(zo))
			}
		}
		if !giant && t.Chance(1, 4) {
			// a sibling archive whose header row differs only in how its text splits into cells
			sib := &gen.StaticModel{Feed: m.Feed.Clone(), Cfg: m.Cfg}
			if d := gen.MergeHeaderCells(t, sib); d != "" {
				t.Logf("shared archive %d is a sibling of archive %d: %s", len(stIn), i, d)
				t.Probe("merged-header-sibling")
				stIn = append(stIn, sib.Feed.Zip(gen.DrawZipOpts(t, len(sib.Feed.Tables))))
			}
		}
	}
	nST = len(stIn)
	snapRT := make([][]byte, len(rtIn))
	for i := range rtIn {
		snapRT[i] = append([]byte(nil), rtIn[i]...)
	}
	snapST := make([][]byte, len(stIn))
	for i := range stIn {
		snapST[i] = append([]byte(nil), stIn[i]...)
	}
	// ---- shared option objects
	nPool := t.Range(1, 3)
	specs := make([]ExtSpec, nPool)
	for i := range specs {
		specs[i] = DrawExtSpec(t)
	}
	sched := sim.NewSched(t)
	sites := map[string]bool{}
	allOn := t.Chance(1, 4)
	for _, s := range c18Sites {
		if t.Chance(1, 2) {
			sites[s] = true
		}
	}
	if giant {
		sites, allOn = map[string]bool{"csv.NextRow": true}, false
	}
	sched.SetSites(sites, allOn)
	// yield sites inserted by the instrumenter (present when the check built against the instrumented copy)
	sched.AutoSalt = uint32(t.Choose(1 << 30))
	sched.AutoSyncThresh = []uint32{0, 65536, 32768, 65536}[t.Choose(4)]
	sched.AutoFuncThresh = []uint32{0, 0, 1024, 4096, 16384}[t.Choose(5)]
	if giant {
		sched.AutoSyncThresh, sched.AutoFuncThresh = 0, 0
		// 20 000 scheduling decisions do not span two calls of 170 000 rows each (the rest would run one call after
		// the other): decide every 256th, 4 096th or 16 384th row instead, so that the calls overlap from end to end and
		// drift tens of thousands of rows apart
		sched.Stride = []uint32{256, 4096, 16384, 16384}[t.Choose(4)]
	}
	// Half of the runs wrap extension objects in the yield proxy (finer pre-emption, before and after
	// each interface call); the other half pass the bundled extension objects as they are, so that
	// library code that inspects the extension's dynamic type is exercised unwrapped too. The tagged
	// hooks in the entity loops yield next to every extension call in both modes.
	useProxy := t.Chance(1, 2)
	mkOpts := func(sp ExtSpec) *gtfs.ParseRealtimeOptions {
		o := sp.Fresh()
		if o.Extension != nil && useProxy {
			o.Extension = extProxy{inner: o.Extension, s: sched}
		}
		return o
	}
	pool := make([]*gtfs.ParseRealtimeOptions, nPool)
	for i := range pool {
		pool[i] = mkOpts(specs[i])
	}
	// ---- task programs
	maxTasks, maxSteps := 6, 4
	if tier == "thorough" {
		maxTasks, maxSteps = 8, 6
	}
	nTasks := t.Range(2, maxTasks)
	// now and then a crowd: dozens of callers with one call each (limits on the number of calls in flight,
	// fixed-size tables of per-caller state)
	crowd := !giant && t.Chance(1, 40)
	if crowd {
		nTasks, maxSteps = t.Range(17, 48), 1
		t.Probe("crowd-of-callers")
	}
	if giant {
		// two identical calls after the solo one
		nTasks, maxSteps = 2, 1
	}
	progs := make([][]c18Op, nTasks)
	usePool := map[int]int{}
	useIn := map[string]int{}
	var progSig strings.Builder
	for i := range progs {
		n := t.Range(1, maxSteps)
		for k := 0; k < n; k++ {
			op := c18Op{}
			if giant || (nST > 0 && (t.Chance(1, 4) || (staticHeavy && t.Chance(1, 2)) || (crowd && t.Chance(1, 2)))) {
				op.kind = 1
				op.input = t.Choose(nST)
				op.inherit = t.Chance(1, 2) && !giant
				useIn[fmt.Sprintf("s%d", op.input)]++
			} else {
				op.input = t.Choose(nRT)
				useIn[fmt.Sprintf("r%d", op.input)]++
				if t.Chance(3, 4) {
					op.opts = t.Choose(nPool)
					usePool[op.opts]++
				} else {
					op.opts = -1
					op.priv = DrawExtSpec(t)
				}
			}
			progs[i] = append(progs[i], op)
			fmt.Fprintf(&progSig, "%d:%d:%d:%d;", i, op.kind, op.input, op.opts)
			switch {
			case op.kind == 1:
				t.Logf("task %d step %d: ParseStatic(shared archive %d, inherit=%v), then Root() of every stop", i, k, op.input, op.inherit)
			case op.opts >= 0:
				t.Logf("task %d step %d: ParseRealtime(shared message %d, shared options #%d), then Hash of every trip and vehicle", i, k, op.input, op.opts)
			default:
				t.Logf("task %d step %d: ParseRealtime(shared message %d, private options %s), then Hash of every trip and vehicle", i, k, op.input, op.priv)
			}
		}
	}
	sharedOpts, sharedExt, sharedIn := false, false, false
	for i, n := range usePool {
		if n >= 2 {
			sharedOpts = true
			if specs[i].Kind >= 2 {
				sharedExt = true
			}
		}
	}
	for _, n := range useIn {
		if n >= 2 {
			sharedIn = true
		}
	}
	if sharedOpts {
		t.Probe("shared-options")
	}
	if sharedExt {
		t.Probe("shared-extension-object")
	}
	if sharedIn {
		t.Probe("shared-input")
	}
	for i, sp := range specs {
		t.Logf("shared options #%d: %s (used by %d calls)", i, sp, usePool[i])
	}

	// ---- reference: every call alone, beforehand, on fresh objects (no scheduler: Yield is a no-op)
	runOp := func(op c18Op, shared bool) c18Result {
		var res c18Result
		if op.kind == 1 {
			st, err, pv, stack := parseST(stIn[op.input], gtfs.ParseStaticOptions{InheritWheelchairBoarding: op.inherit})
			res.pv, res.stack = pv, stack
			if pv == nil {
				res.dump = sim.Dump(st, SortNorm) + "err=" + errString(err)
				if st != nil {
					sched.Yield("task.read")
					res.hash = accessorsST(st)
				}
			}
			return res
		}
		var o *gtfs.ParseRealtimeOptions
		switch {
		case shared && op.opts >= 0:
			o = pool[op.opts]
		case op.opts >= 0:
			o = mkOpts(specs[op.opts])
		default:
			o = mkOpts(op.priv)
		}
		r, err, pv, stack := parseRT(rtIn[op.input], o)
		res.pv, res.stack = pv, stack
		if pv == nil {
			res.dump = sim.Dump(r, SortNorm) + "err=" + errString(err)
			if r != nil {
				sched.Yield("task.read")
				pv2, st2 := guard(func() { res.hash = accessorsRT(r) })
				if pv2 != nil {
					res.pv, res.stack = pv2, st2
				}
			}
		}
		return res
	}
	// The solo reference runs happen after the concurrent phase in three runs out of four, so that
	// lazily initialised package-level state (memo tables, caches) is still cold when the tasks race
	// for it; in the remaining runs they happen first (warm state).
	want := make([][]c18Result, nTasks)
	// VERIF_C18_ORDER=reverse (set by the driver for fresh child processes): the solo runs come first and in
	// the opposite order, in a process that has parsed nothing else; their digest must be the worker's.
	reverse := os.Getenv("VERIF_C18_ORDER") == "reverse"
	reference := func() {
		if giant {
			// the three calls are the same call: one solo run serves as the reference of all of them
			r := runOp(progs[0][0], false)
			for i := range progs {
				want[i] = []c18Result{r}
			}
			return
		}
		if reverse {
			for i := len(progs) - 1; i >= 0; i-- {
				want[i] = make([]c18Result, len(progs[i]))
				for k := len(progs[i]) - 1; k >= 0; k-- {
					want[i][k] = runOp(progs[i][k], false)
				}
			}
			return
		}
		for i := range progs {
			for _, op := range progs[i] {
				want[i] = append(want[i], runOp(op, false))
			}
		}
	}
	refFirst := t.Chance(1, 4)
	if reverse || giant {
		refFirst = true
	}
	if refFirst {
		reference()
	}
	sim.RaceLogNew() // nothing before the concurrent phase counts

	// ---- concurrent phase
	got := make([][]c18Result, nTasks)
	verifhook.SetHook(sched.Yield)
	before := runtime.NumGoroutine()
	for i := range progs {
		i := i
		sched.Go(fmt.Sprintf("task%d", i), func() {
			for _, op := range progs[i] {
				sched.Yield("task.step")
				got[i] = append(got[i], runOp(op, true))
			}
		})
	}
	start := time.Now()
	sched.Run()
	verifhook.SetHook(nil)
	_ = start
	if after := runtime.NumGoroutine(); after > before+0 {
		// task goroutines have exited by now (they sent their final message); allow a moment
		for k := 0; k < 50 && runtime.NumGoroutine() > before; k++ {
			time.Sleep(time.Millisecond)
		}
		if runtime.NumGoroutine() > before {
			t.Probe("uncontrolled-goroutines")
			t.Logf("goroutines before=%d after=%d: the library started goroutines the scheduler does not control", before, runtime.NumGoroutine())
		}
	}
	for _, st := range sched.Steps {
		t.Logf("sched %s", st)
	}
	inside := 0
	for _, st := range sched.Steps {
		if strings.Contains(st, "@ext.") || strings.Contains(st, "@csv.") || strings.Contains(st, "@rt.") || strings.Contains(st, "@auto:") {
			inside++
		}
	}
	if inside > 0 && sched.Switches > 0 {
		t.Probe("switch-inside-parse")
	}
	for _, st := range sched.Steps {
		if strings.Contains(st, "@auto:sync:") {
			t.Probe("switch-at-instrumented-sync-site")
			break
		}
	}
	for _, st := range sched.Steps {
		if strings.Contains(st, "@auto:func:") {
			t.Probe("switch-at-instrumented-function-entry")
			break
		}
	}
	if sched.Uncontrolled {
		t.Probe("task-blocked-on-real-lock")
	}
	t.Case = sim.HashStrings(progSig.String(), strings.Join(sched.Steps, " "))
	t.Nontriv = inside > 0 && sched.Switches > 0 && (sharedOpts || sharedIn)
	t.Extra["yield_steps"] += len(sched.Steps)

	// ---- oracle (a): no data race
	raceTxt := sim.RaceLogNew()
	if !refFirst {
		reference()
	}
	if txt := raceTxt; txt != "" {
		sig, rep := sim.RaceSignature(txt, "github.com/jamespfennell/gtfs")
		if sig == "" && strings.HasPrefix(rep, "harness-artefact") {
			t.Probe("race-report-involving-scheduler-ignored")
		}
		if sig != "" {
			return &sim.Violation{Class: "data-race", Signature: "C18:race:" + sig, Detail: sim.Clip(rep, 2500)}
		}
	}
	// ---- oracle (b): each call equals the call run alone
	for i := range progs {
		for k, op := range progs[i] {
			w, g := want[i][k], got[i][k]
			what := "ParseRealtime"
			if op.kind == 1 {
				what = "ParseStatic"
			}
			if g.pv != nil && w.pv == nil {
				return &sim.Violation{Class: "panic", Signature: "C18:panic-only-when-concurrent:" + panicSig(g.pv, g.stack), Detail: fmt.Sprintf("task %d call %d (%s) panicked only in the concurrent run: %v", i, k, what, g.pv)}
			}
			if w.pv != nil {
				continue // C05's business
			}
			if w.dump != g.dump {
				optDesc := "private options"
				if op.opts >= 0 {
					optDesc = fmt.Sprintf("shared options #%d (%s)", op.opts, specs[op.opts])
				}
				return &sim.Violation{Class: "result-differs", Signature: "C18:result-differs:" + what + ":" + sim.DiffPath(w.dump, g.dump),
					Detail: fmt.Sprintf("task %d call %d (%s on input %d, %s) returned something different from the same call run alone: %s", i, k, what, op.input, optDesc, sim.FirstDiff(w.dump, g.dump))}
			}
			if w.hash != g.hash {
				return &sim.Violation{Class: "result-differs", Signature: "C18:accessor-differs:" + what, Detail: fmt.Sprintf("task %d call %d: hashing/walking the result gave %s, alone %s", i, k, g.hash, w.hash)}
			}
		}
	}
	// digest of what every call returned alone (compared by the driver with fresh processes, see cmd/verif)
	var dg []string
	for i := range want {
		for _, w := range want[i] {
			if w.pv != nil {
				dg = append(dg, "panic")
				continue
			}
			dg = append(dg, w.dump, w.hash)
		}
	}
	t.Digest = fmt.Sprintf("%016x", sim.HashStrings(dg...))
	// ---- oracle (c): shared inputs unchanged
	for i := range rtIn {
		if !bytes.Equal(rtIn[i], snapRT[i]) {
			return &sim.Violation{Class: "input-modified", Signature: "C18:input-modified:realtime", Detail: fmt.Sprintf("shared realtime input %d was modified", i)}
		}
	}
	for i := range stIn {
		if !bytes.Equal(stIn[i], snapST[i]) {
			return &sim.Violation{Class: "input-modified", Signature: "C18:input-modified:static", Detail: fmt.Sprintf("shared static input %d was modified", i)}
		}
	}
	return nil
}
