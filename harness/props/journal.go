package props

import (
	"fmt"
	"os"
	"sort"
	"strconv"
	"strings"
	"time"

	"github.com/jamespfennell/gtfs"
	"github.com/jamespfennell/gtfs/journal"

	"verif/gen"
	"verif/sim"
)

// Engine world (C14, C15): histories of feeds delivered through the GtfsrtSource seam by a simulated
// world + lossy transport; stepwise reference model (DESIGN.md Appendix B) checked on every prefix.

func init() {
	rule := "a case is a delivered history, hashed as the sequence of per-feed (journal key -> stop-id list, vehicle presence, feed time); " +
		"non-trivial = at least one key received >= 2 applied updates AND at least one of the probes {front-shrink, tail-change, first-stop-missing, repeat-stop, " +
		"empty-update, vanish-and-reappear, unassigned-after-assigned, duplicate/reordered/dropped feed, clock fault, two updates one key, window boundary hit} fired"
	real := []string{"gtfs.ParseRealtime (+ nycttrips extension in 4 option combinations, 3 timezones)", "journal.BuildJournal", "journal.Trip.update/markPast, createPartition"}
	stubs := []string{"simulated world (trains, clock) and publisher", "adversarial stop-list generator", "lossy transport (drop/duplicate/reorder)", "slice-backed GtfsrtSource"}
	assume := []string{
		"the oracle's notion of 'the feed' is the gtfs.Realtime the real parser returned (parser defects are other properties' business)",
		"trip ids are NYCT-shaped (>= 7 characters) and every stop time update has a stop id; shorter ids / absent stop ids belong to C05",
		"when one feed carries two updates for one journal key the intermediate stop list is not observable: C14 clauses are skipped for that key on that step (counted by a probe)",
	}
	budget := func(tier string) (int, time.Duration) {
		if tier == "thorough" {
			return 3000000, 20 * time.Minute
		}
		return 40000, 45 * time.Second
	}
	register(&Engine{Prop: "C14", Name: "world-c14", Level: "exploration", Rule: rule, Real: real, Stubs: stubs, Assume: assume, Budget: budget,
		Run:             func(t *sim.T, tier string) *sim.Violation { return runJournal(t, "C14", tier) },
		MandatoryProbes: []string{"front-shrink", "tail-change", "first-stop-missing", "repeat-stop", "empty-update", "vanish-and-reappear", "unassigned-after-assigned"}})
	register(&Engine{Prop: "C15", Name: "world-c15", Level: "exploration", Rule: rule, Real: real, Stubs: stubs, Assume: assume, Budget: budget,
		Run:             func(t *sim.T, tier string) *sim.Violation { return runJournal(t, "C15", tier) },
		MandatoryProbes: []string{"vanish-and-reappear", "unassigned-after-assigned", "window-boundary-hit", "never-assigned-trip", "two-trips"}})
}

type jKey struct {
	start  int64
	suffix string
}

func (k jKey) String() string { return fmt.Sprintf("(%d,%q)", k.start, k.suffix) }

type jState struct {
	assigned     bool
	applied      int
	last         *gtfs.Trip
	lastT        time.Time
	missingSince *time.Time
}

func keyOfUpdate(u *gtfs.Trip) (jKey, bool) {
	if len(u.ID.ID) < 6 {
		return jKey{}, false
	}
	return jKey{start: u.ID.StartDate.Add(u.ID.StartTime).Unix(), suffix: u.ID.ID[6:]}, true
}

func keyOfOutput(tr *journal.Trip) (jKey, bool) {
	if len(tr.TripID) < 6 {
		return jKey{}, false
	}
	return jKey{start: tr.StartTime.Unix(), suffix: tr.TripID[6:]}, true
}

func tEq(a, b *time.Time) bool {
	if a == nil || b == nil {
		return a == nil && b == nil
	}
	return a.Equal(*b)
}

func sEq(a, b *string) bool {
	if a == nil || b == nil {
		return a == nil && b == nil
	}
	return *a == *b
}

func stEq(a, b *journal.StopTime) bool {
	return a.StopID == b.StopID && tEq(a.ArrivalTime, b.ArrivalTime) && tEq(a.DepartureTime, b.DepartureTime) && sEq(a.Track, b.Track) &&
		a.LastObserved.Equal(b.LastObserved) && tEq(a.MarkedPast, b.MarkedPast)
}

func markCopy(xs []journal.StopTime, T time.Time) []journal.StopTime {
	out := make([]journal.StopTime, len(xs))
	copy(out, xs)
	for i := range out {
		if out[i].MarkedPast == nil {
			tt := T
			out[i].MarkedPast = &tt
		}
	}
	return out
}

func listEq(a, b []journal.StopTime) bool {
	if len(a) != len(b) {
		return false
	}
	for i := range a {
		if !stEq(&a[i], &b[i]) {
			return false
		}
	}
	return true
}

func freshList(U []gtfs.StopTimeUpdate, T time.Time) []journal.StopTime {
	out := make([]journal.StopTime, len(U))
	for i := range U {
		u := &U[i]
		st := journal.StopTime{LastObserved: T}
		if u.StopID != nil {
			st.StopID = *u.StopID
		}
		if u.Arrival != nil {
			st.ArrivalTime = u.Arrival.Time
		}
		if u.Departure != nil {
			st.DepartureTime = u.Departure.Time
		}
		st.Track = u.NyctTrack
		out[i] = st
	}
	return out
}

func fmtList(xs []journal.StopTime) string {
	var sb strings.Builder
	sb.WriteString("[")
	for i, s := range xs {
		if i > 0 {
			sb.WriteString(" ")
		}
		sb.WriteString(s.StopID)
		if s.MarkedPast != nil {
			fmt.Fprintf(&sb, "(past@%d)", s.MarkedPast.Unix()-gen.Epoch)
		}
		fmt.Fprintf(&sb, "@%d", s.LastObserved.Unix()-gen.Epoch)
	}
	sb.WriteString("]")
	return sb.String()
}

func fmtUpd(U []gtfs.StopTimeUpdate) string {
	var parts []string
	for _, u := range U {
		if u.StopID != nil {
			parts = append(parts, *u.StopID)
		} else {
			parts = append(parts, "<nil>")
		}
	}
	return "[" + strings.Join(parts, " ") + "]"
}

// allowedC14 decides whether cur is one of the lists the property allows after applying update U at
// time T to the previously observed list prev. Returns "" or the violated clause.
func allowedC14(prev, cur []journal.StopTime, U []gtfs.StopTimeUpdate, T time.Time, prevKnown bool) string {
	n := len(U)
	if n == 0 {
		if !prevKnown {
			return ""
		}
		if !listEq(cur, markCopy(prev, T)) {
			return "empty-update-changed-list"
		}
		return ""
	}
	if len(cur) < n {
		return "tail-shorter-than-update"
	}
	tail := cur[len(cur)-n:]
	fresh := freshList(U, T)
	for i := range fresh {
		if !stEq(&tail[i], &fresh[i]) {
			switch {
			case tail[i].StopID != fresh[i].StopID:
				return "tail-stop-mismatch"
			case tail[i].MarkedPast != nil:
				return "tail-marked-past"
			case !tail[i].LastObserved.Equal(T):
				return "tail-last-observed"
			default:
				return "tail-prediction-mismatch"
			}
		}
	}
	if !prevKnown {
		return "" // only P1 can be checked for a trip that just became visible
	}
	pre := cur[:len(cur)-n]
	first := fresh[0].StopID
	marked := markCopy(prev, T)
	anyIdx := false
	for i := range prev {
		if prev[i].StopID == first {
			anyIdx = true
			if listEq(pre, marked[:i]) {
				return ""
			}
		}
	}
	if anyIdx {
		// classify
		for i := range prev {
			if prev[i].StopID == first {
				if len(pre) < i {
					return "past-entry-dropped"
				}
				if len(pre) > i {
					continue
				}
				for j := 0; j < i; j++ {
					if !stEq(&pre[j], &marked[j]) {
						if pre[j].StopID != marked[j].StopID {
							return "past-entry-replaced"
						}
						if !tEq(pre[j].MarkedPast, marked[j].MarkedPast) {
							return "past-mark-wrong"
						}
						return "past-entry-modified"
					}
				}
			}
		}
		return "past-prefix-mismatch"
	}
	// first stop unknown: pre must be an order-preserving selection of marked
	j := 0
	for i := range pre {
		found := false
		for j < len(marked) {
			if stEq(&pre[i], &marked[j]) {
				found = true
				j++
				break
			}
			j++
		}
		if !found {
			return "unknown-first-stop-prefix-not-from-history"
		}
	}
	return ""
}

// allowedSetC14 generates every list the property allows after applying update U at time T to list st.
// ok is false when the set would be too large to enumerate (unknown first stop and a long list).
func allowedSetC14(st []journal.StopTime, U []gtfs.StopTimeUpdate, T time.Time) (set [][]journal.StopTime, ok bool) {
	marked := markCopy(st, T)
	if len(U) == 0 {
		return [][]journal.StopTime{marked}, true
	}
	fresh := freshList(U, T)
	first := fresh[0].StopID
	for i := range st {
		if st[i].StopID == first {
			set = append(set, append(append([]journal.StopTime(nil), marked[:i]...), fresh...))
		}
	}
	if len(set) > 0 {
		return set, true
	}
	if len(marked) > 9 {
		return nil, false
	}
	for mask := 0; mask < 1<<len(marked); mask++ {
		var pre []journal.StopTime
		for i := range marked {
			if mask&(1<<i) != 0 {
				pre = append(pre, marked[i])
			}
		}
		set = append(set, append(pre, fresh...))
	}
	return set, true
}

type parsedFeed struct {
	r *gtfs.Realtime
	b []byte
}

var allStart, allEnd = time.Unix(-(1 << 40), 0), time.Unix(1<<40, 0)

// journalGiantOdds: one thorough run in this many is the giant one (VERIF_JOURNAL_GIANT_ODDS overrides it for
// sensitivity experiments; part of the batch configuration like the seed).
var journalGiantOdds = func() int {
	if n, err := strconv.Atoi(os.Getenv("VERIF_JOURNAL_GIANT_ODDS")); err == nil && n > 0 {
		return n
	}
	return 5000
}()

func runJournal(t *sim.T, which string, tier string) *sim.Violation {
	cfg := gen.DrawWorldCfg(t)
	spec := ExtSpec{Kind: 2, TZ: t.Choose(3)}
	switch t.Choose(5) {
	case 0:
		spec.Kind = 0
		cfg.ExplicitTime = true
	default:
		spec.Trips.FilterStaleUnassignedTrips = t.Chance(1, 2)
		spec.Trips.PreserveMTrainPlatformsInBushwick = t.Chance(1, 2)
	}
	if !cfg.Nyct {
		cfg.ExplicitTime = true
	}
	nFeeds := 1 + t.Weighted(6, 6, 5, 5, 4, 4, 3, 3, 2, 2, 2, 2, 1, 1, 1, 1, 1, 1, 1, 1)
	if t.Chance(1, 10) {
		nFeeds = t.Range(20, 40)
	}
	long := t.Chance(1, 120)
	if long {
		nFeeds = t.Range(100, 600) // state that builds up over hundreds of feeds
		t.Probe("long-history")
		// trains keep appearing, and unassigned ones get their vehicle, all along the history
		cfg.Horizon = nFeeds
		cfg.Trips = t.Range(8, 30)
		if cfg.FlapAssign > 1 {
			cfg.FlapAssign = 1
		}
	}
	// Thorough tier, rarely: more distinct trips in one journal than fixed capacities a build might use (2^14, ...):
	// twenty to thirty thousand short-lived trains (some never delivered) over a few dozen feeds.
	if tier == "thorough" && t.Chance(1, journalGiantOdds) {
		long = true
		nFeeds = t.Range(40, 60)
		cfg.Horizon = nFeeds
		cfg.Trips = 19000 + t.Choose(6000)
		cfg.ShortLives = true
		cfg.LongLines = false
		// plain GTFS-realtime with explicit start times: NYCT ids encode the start time in six digits, which
		// cannot tell this many trains apart
		cfg.Nyct, cfg.ExplicitTime = false, true
		spec.Kind = 0
		t.Probe("giant-journal")
	}
	w := gen.NewWorld(t, cfg)
	var published [][]byte
	for i := 0; i < nFeeds; i++ {
		published = append(published, gen.MarshalFeed(w.Tick()))
	}
	tcfg := gen.DrawTransportCfg(t)
	delivered := gen.Deliver(t, tcfg, published)
	t.SimTime = float64(w.Now - gen.Epoch)
	t.Logf("world: %d routes, %d trips, adversarial=%v, nyct=%v, %s; published %d feeds, delivered %d", cfg.Routes, cfg.Trips, cfg.Adversarial, cfg.Nyct, spec, len(published), len(delivered))

	// Per-feed options: usually one options value per history; sometimes every feed is parsed with its own
	// freshly loaded *time.Location for the same zone (as a program that loads the zone per file would do):
	// equal instants then carry different Location pointers.
	freshLoc := spec.TZ == 2 && t.Chance(1, 3)
	optsFor := func() *gtfs.ParseRealtimeOptions {
		o := spec.Fresh()
		if freshLoc {
			if l, err := time.LoadLocation("America/New_York"); err == nil {
				o.Timezone = l
			}
		}
		return o
	}
	if freshLoc {
		t.Probe("fresh-location-object-per-feed")
	}
	// the model's view: each delivered feed parsed once
	var feeds []*gtfs.Realtime
	for _, b := range delivered {
		r, err, pv, _ := parseRT(append([]byte(nil), b...), optsFor())
		if pv != nil || err != nil {
			// a parser problem: not this property's business
			t.Probe("parse-failed-skip-run")
			return nil
		}
		feeds = append(feeds, r)
	}
	// precondition of the journal (C05's business otherwise): id length and stop ids
	for _, r := range feeds {
		for i := range r.Trips {
			if len(r.Trips[i].ID.ID) < 7 {
				t.Probe("short-id-skip-run")
				return nil
			}
			for _, u := range r.Trips[i].StopTimeUpdates {
				if u.StopID == nil {
					t.Probe("nil-stop-id-skip-run")
					return nil
				}
			}
		}
	}

	// In long histories every prefix is checked too, but the feeds of a prefix are not re-parsed for each
	// build (the journal does not modify the feeds it is given; short histories re-parse to make sure).
	var reuse []*gtfs.Realtime
	if long {
		for _, raw := range delivered {
			r, err, pv, _ := parseRT(append([]byte(nil), raw...), optsFor())
			if pv != nil || err != nil {
				return nil
			}
			reuse = append(reuse, r)
		}
	}
	build := func(k int, a, b time.Time) (*journal.Journal, *sim.Violation) {
		src := &sliceSource{}
		if long {
			src.items = reuse[:k:k]
			var j *journal.Journal
			pv, stack := guard(func() { j = journal.BuildJournal(src, a, b) })
			if pv != nil {
				return nil, &sim.Violation{Class: "panic", Signature: which + ":panic:" + panicSig(pv, stack), Detail: fmt.Sprintf("BuildJournal panicked on a well-shaped history: %v", pv)}
			}
			if j == nil {
				return nil, &sim.Violation{Class: "nil-journal", Signature: which + ":nil-journal", Detail: "BuildJournal returned nil"}
			}
			return j, nil
		}
		for _, raw := range delivered[:k] {
			r, err, pv, _ := parseRT(append([]byte(nil), raw...), optsFor())
			if pv != nil || err != nil {
				return nil, &sim.Violation{Class: "harness", Signature: which + ":harness-reparse", Detail: "re-parse of a delivered feed failed"}
			}
			src.items = append(src.items, r)
		}
		var j *journal.Journal
		pv, stack := guard(func() { j = journal.BuildJournal(src, a, b) })
		if pv != nil {
			return nil, &sim.Violation{Class: "panic", Signature: which + ":panic:" + panicSig(pv, stack), Detail: fmt.Sprintf("BuildJournal panicked on a well-shaped history: %v", pv)}
		}
		if j == nil {
			return nil, &sim.Violation{Class: "nil-journal", Signature: which + ":nil-journal", Detail: "BuildJournal returned nil"}
		}
		return j, nil
	}

	state := map[jKey]*jState{}
	var keyOrder []jKey
	prevObs := map[jKey][]journal.StopTime{}
	var caseParts []string
	maxApplied := 0
	interesting := false
	seenT := map[int64]bool{}
	var lastCreated int64

	for k := 1; k <= len(feeds); k++ {
		F := feeds[k-1]
		T := F.CreatedAt
		if seenT[T.Unix()] {
			t.Probe("duplicate-feed-time")
			interesting = true
		}
		if k > 1 && T.Unix() < lastCreated {
			t.Probe("feed-time-went-backwards")
			interesting = true
		}
		seenT[T.Unix()] = true
		lastCreated = T.Unix()

		type upd struct {
			u       *gtfs.Trip
			applied bool
		}
		updates := map[jKey][]upd{}
		var feedKeys []jKey
		for i := range F.Trips {
			u := &F.Trips[i]
			key, _ := keyOfUpdate(u)
			s := state[key]
			if s == nil {
				s = &jState{}
				state[key] = s
				keyOrder = append(keyOrder, key)
			} else if s.missingSince != nil {
				t.Probe("vanish-and-reappear")
				interesting = true
			}
			if _, dup := updates[key]; !dup {
				feedKeys = append(feedKeys, key)
			} else {
				t.Probe("two-updates-one-key")
				interesting = true
			}
			if s.assigned && u.Vehicle == nil {
				updates[key] = append(updates[key], upd{u, false})
				t.Probe("unassigned-after-assigned")
				interesting = true
				continue
			}
			if u.Vehicle != nil {
				s.assigned = true
			}
			s.applied++
			if s.applied > maxApplied {
				maxApplied = s.applied
			}
			s.last = u
			s.lastT = T
			s.missingSince = nil
			updates[key] = append(updates[key], upd{u, true})
		}
		for _, key := range keyOrder {
			if _, ok := updates[key]; ok {
				continue
			}
			s := state[key]
			if s.missingSince == nil {
				tt := T
				s.missingSince = &tt
			}
		}
		// case hash material
		var fp strings.Builder
		fmt.Fprintf(&fp, "T%d;", T.Unix()-gen.Epoch)
		for _, key := range feedKeys {
			for _, u := range updates[key] {
				fmt.Fprintf(&fp, "%s%s%v;", key, fmtUpd(u.u.StopTimeUpdates), u.u.Vehicle != nil)
			}
		}
		caseParts = append(caseParts, fp.String())
		t.Logf("feed %d: %s", k, fp.String())

		j, v := build(k, allStart, allEnd)
		if v != nil {
			return v
		}
		// ---- C15 on this prefix
		obs := map[jKey]*journal.Trip{}
		for i := range j.Trips {
			tr := &j.Trips[i]
			key, ok := keyOfOutput(tr)
			if !ok {
				if which == "C15" {
					return &sim.Violation{Class: "accounting", Signature: "C15:output-trip-id-too-short", Detail: fmt.Sprintf("prefix %d: output trip with id %q", k, tr.TripID)}
				}
				continue
			}
			if _, dup := obs[key]; dup && which == "C15" {
				return &sim.Violation{Class: "selection", Signature: "C15:duplicate-entry", Detail: fmt.Sprintf("prefix %d: two entries for key %s", k, key)}
			}
			obs[key] = tr
			if i > 0 && !(j.Trips[i-1].TripUID < tr.TripUID) && which == "C15" {
				return &sim.Violation{Class: "order", Signature: "C15:uid-order", Detail: fmt.Sprintf("prefix %d: TripUID %q not after %q", k, tr.TripUID, j.Trips[i-1].TripUID)}
			}
		}
		if which == "C15" {
			if v := checkC15(t, state, keyOrder, obs, k, "all"); v != nil {
				return v
			}
			if len(keyOrder) >= 2 {
				t.Probe("two-trips")
			}
		}
		// ---- C14 on this prefix
		if which == "C14" {
			for _, key := range keyOrder {
				tr := obs[key]
				if tr == nil {
					continue
				}
				prev, prevKnown := prevObs[key]
				us := updates[key]
				cur := tr.StopTimes
				describe := func(clause string, U []gtfs.StopTimeUpdate) *sim.Violation {
					return &sim.Violation{Class: "stop-list", Signature: "C14:" + clause,
						Detail: fmt.Sprintf("prefix %d (feed time +%ds) trip %s: previous list %s, update %s -> observed %s violates %s", k, T.Unix()-gen.Epoch, key, fmtList(prev), fmtUpd(U), fmtList(cur), clause)}
				}
				switch {
				case len(us) == 0:
					if prevKnown && !listEq(cur, markCopy(prev, T)) {
						return describe("absent-trip-list-changed", nil)
					}
				case len(us) == 1 && !us[0].applied:
					// An update without a vehicle for a trip already seen with one. Whether such an update is
					// dropped is C15's clause ("do not alter its recorded data"), not C14's: here the list may
					// be unchanged, or it may be what C14 allows for an applied update.
					if prevKnown && !listEq(cur, prev) {
						if clause := allowedC14(prev, cur, us[0].u.StopTimeUpdates, T, prevKnown); clause != "" {
							return describe("vehicle-less-update:"+clause, us[0].u.StopTimeUpdates)
						}
						t.Probe("vehicle-less-update-applied")
					}
				case len(us) == 1:
					U := us[0].u.StopTimeUpdates
					if clause := allowedC14(prev, cur, U, T, prevKnown); clause != "" {
						return describe(clause, U)
					}
					if prevKnown {
						c14Probes(t, prev, U, &interesting)
					}
				default:
					// several updates for one journal key in one feed: the intermediate lists are not observable;
					// compose the allowed sets update by update (skipped when the sets grow too large)
					if !prevKnown {
						t.Probe("c14-skipped-two-updates")
						break
					}
					states := [][]journal.StopTime{prev}
					feasible := true
					for ui, u := range us {
						// Which of several same-key updates of one feed "the update" of C14 is, the property does
						// not say: only the last one is required to have been applied (and a vehicle-less update
						// of an assigned trip may always be dropped, see above); earlier ones may or may not.
						optional := !u.applied || ui < len(us)-1
						var next [][]journal.StopTime
						for _, st := range states {
							set, ok := allowedSetC14(st, u.u.StopTimeUpdates, T)
							if !ok {
								feasible = false
								break
							}
							next = append(next, set...)
							if optional {
								next = append(next, st)
							}
						}
						if !feasible || len(next) > 3000 {
							feasible = false
							break
						}
						states = next
					}
					if !feasible {
						t.Probe("c14-skipped-two-updates")
						break
					}
					found := false
					for _, st := range states {
						if listEq(cur, st) {
							found = true
							break
						}
					}
					if !found {
						return describe("several-updates-one-key", us[len(us)-1].u.StopTimeUpdates)
					}
					t.Probe("c14-composed-two-updates")
				}
				// marks never change once set unless the stop is reported again: implied by the clauses above
			}
		}
		for key := range prevObs {
			if obs[key] == nil {
				delete(prevObs, key)
			}
		}
		for key, tr := range obs {
			prevObs[key] = append([]journal.StopTime(nil), tr.StopTimes...)
		}
	}

	// ---- a drawn window on the full history: selection (C15) and, for both properties, every trip the
	// window returns must be recorded exactly as in the all-inclusive journal (what a trip's entry holds
	// is determined by the history, not by the window it is asked for with)
	if len(feeds) > 0 {
		var instants []int64
		for _, key := range keyOrder {
			instants = append(instants, key.start)
		}
		sort.Slice(instants, func(a, b int) bool { return instants[a] < instants[b] })
		if len(instants) > 0 {
			pick := func() int64 { return instants[t.Choose(len(instants))] }
			var a, b time.Time
			switch t.Choose(8) {
			case 6: // lower bound half a second after a trip's start instant: that trip is outside
				s := pick()
				a, b = time.Unix(s, 500_000_000), allEnd
				t.Probe("window-boundary-hit")
				t.Probe("window-subsecond-bound")
				interesting = true
			case 7: // upper bound half a second before / after a start instant
				s := pick()
				if t.Chance(1, 2) {
					a, b = allStart, time.Unix(s-1, 999_999_999)
				} else {
					a, b = allStart, time.Unix(s, 1)
				}
				t.Probe("window-boundary-hit")
				t.Probe("window-subsecond-bound")
				interesting = true
			case 0:
				a, b = allStart, allEnd
			case 1: // exactly a trip's start instant at the lower end
				a, b = time.Unix(pick(), 0), allEnd
				t.Probe("window-boundary-hit")
				interesting = true
			case 2: // at the upper end
				a, b = allStart, time.Unix(pick(), 0)
				t.Probe("window-boundary-hit")
				interesting = true
			case 3: // degenerate window [s,s]
				s := pick()
				a, b = time.Unix(s, 0), time.Unix(s, 0)
				t.Probe("window-boundary-hit")
				interesting = true
			case 4: // strictly between / just outside
				s := pick()
				a, b = time.Unix(s+1, 0), time.Unix(s+int64(t.Range(1, 4000)), 0)
			case 5: // inverted
				s := pick()
				a, b = time.Unix(s+10, 0), time.Unix(s-10, 0)
				t.Probe("window-inverted")
			}
			j, v := build(len(feeds), a, b)
			if v != nil {
				return v
			}
			obs := map[jKey]*journal.Trip{}
			for i := range j.Trips {
				tr := &j.Trips[i]
				key, _ := keyOfOutput(tr)
				if _, dup := obs[key]; dup && which == "C15" {
					return &sim.Violation{Class: "selection", Signature: "C15:duplicate-entry", Detail: fmt.Sprintf("window run: two entries for key %s", key)}
				}
				obs[key] = tr
				if i > 0 && !(j.Trips[i-1].TripUID < tr.TripUID) && which == "C15" {
					return &sim.Violation{Class: "order", Signature: "C15:uid-order", Detail: fmt.Sprintf("window run: TripUID %q not after %q", tr.TripUID, j.Trips[i-1].TripUID)}
				}
			}
			// closed window on instants (start instants are whole seconds; the bounds need not be)
			if full, v := build(len(feeds), allStart, allEnd); v == nil {
				fullBy := map[jKey]*journal.Trip{}
				for i := range full.Trips {
					if key, ok := keyOfOutput(&full.Trips[i]); ok {
						fullBy[key] = &full.Trips[i]
					}
				}
				for key, tr := range obs {
					ft := fullBy[key]
					if ft == nil {
						continue
					}
					if which == "C14" && !listEq(tr.StopTimes, ft.StopTimes) {
						return &sim.Violation{Class: "stop-list", Signature: "C14:list-depends-on-window", Detail: fmt.Sprintf("window [%d,%d]: trip %s has list %s, with the all-inclusive window %s", a.Unix(), b.Unix(), key, fmtList(tr.StopTimes), fmtList(ft.StopTimes))}
					}
					if which == "C15" {
						da, db := *tr, *ft
						da.StopTimes, db.StopTimes = nil, nil
						if x, y := sim.Dump(da, nil), sim.Dump(db, nil); x != y {
							return &sim.Violation{Class: "accounting", Signature: "C15:entry-depends-on-window:" + sim.DiffPath(x, y), Detail: fmt.Sprintf("window [%d,%d]: trip %s is recorded differently than with the all-inclusive window: %s", a.Unix(), b.Unix(), key, sim.FirstDiff(x, y))}
						}
					}
				}
				t.Probe("window-entries-compared")
			}
			if which != "C15" {
				goto afterWindow
			}
			win := func(key jKey) bool {
				st := time.Unix(key.start, 0)
				return !st.Before(a) && !b.Before(st)
			}
			for _, key := range keyOrder {
				s := state[key]
				exp := s.assigned && win(key)
				if exp != (obs[key] != nil) {
					return &sim.Violation{Class: "selection", Signature: "C15:window-selection", Detail: fmt.Sprintf("window [%d,%d]: trip %s (start %d, assigned %v) expected in output=%v, observed=%v", a.Unix(), b.Unix(), key, key.start, s.assigned, exp, obs[key] != nil)}
				}
			}
			for key := range obs {
				if state[key] == nil {
					return &sim.Violation{Class: "selection", Signature: "C15:unknown-trip-in-output", Detail: fmt.Sprintf("window run: output holds %s which no feed carried", key)}
				}
			}
		}
	}
afterWindow:
	for _, key := range keyOrder {
		if !state[key].assigned {
			t.Probe("never-assigned-trip")
		}
	}
	if tcfg.Drop+tcfg.Dup+tcfg.Reorder > 0 && (t.Faults["transport-drop"]+t.Faults["transport-duplicate"]+t.Faults["transport-reorder"]) > 0 {
		interesting = true
	}
	if len(keyOrder) > 1<<14 {
		t.Probe("journal-of-more-than-16384-trips")
	}
	if len(keyOrder) > t.Extra["max_trips_in_one_journal"] {
		t.Extra["max_trips_in_one_journal"] = len(keyOrder)
	}
	t.Case = sim.HashStrings(caseParts...)
	t.Nontriv = maxApplied >= 2 && interesting
	return nil
}

func c14Probes(t *sim.T, prev []journal.StopTime, U []gtfs.StopTimeUpdate, interesting *bool) {
	hit := func(p string) { t.Probe(p); *interesting = true }
	if len(U) == 0 {
		hit("empty-update")
		return
	}
	first := *U[0].StopID
	idx := -1
	cnt := 0
	for i := range prev {
		if prev[i].StopID == first {
			if idx < 0 {
				idx = i
			}
			cnt++
		}
	}
	seen := map[string]bool{}
	for _, u := range U {
		if seen[*u.StopID] {
			hit("repeat-stop")
			break
		}
		seen[*u.StopID] = true
	}
	if cnt > 1 {
		hit("repeat-stop")
	}
	if idx < 0 {
		if len(prev) > 0 {
			hit("first-stop-missing")
		}
		return
	}
	// where was the frontier (first unmarked entry) before?
	frontier := len(prev)
	for i := range prev {
		if prev[i].MarkedPast == nil {
			frontier = i
			break
		}
	}
	if idx > frontier {
		hit("front-shrink")
	}
	if idx < frontier {
		hit("jump-back")
	}
	// tail change: the old tail from idx differs from U
	old := prev[idx:]
	same := len(old) == len(U)
	if same {
		for i := range U {
			if old[i].StopID != *U[i].StopID {
				same = false
				break
			}
		}
	}
	if !same {
		hit("tail-change")
	}
}

func checkC15(t *sim.T, state map[jKey]*jState, keyOrder []jKey, obs map[jKey]*journal.Trip, k int, win string) *sim.Violation {
	fail := func(sig, format string, a ...any) *sim.Violation {
		return &sim.Violation{Class: "accounting", Signature: "C15:" + sig, Detail: fmt.Sprintf("prefix %d: ", k) + fmt.Sprintf(format, a...)}
	}
	for _, key := range keyOrder {
		s := state[key]
		tr := obs[key]
		if s.assigned != (tr != nil) {
			if tr == nil {
				return fail("assigned-trip-missing", "trip %s was seen with a vehicle but is not in the journal", key)
			}
			return fail("unassigned-trip-present", "trip %s was never seen with a vehicle but is in the journal", key)
		}
		if tr == nil {
			continue
		}
		u := s.last
		if tr.TripID != u.ID.ID || tr.RouteID != u.ID.RouteID || tr.DirectionID != u.ID.DirectionID || tr.StartTime.Unix() != key.start {
			return fail("identifier-fields", "trip %s carries (%q,%q,%v,%d), last applied update had (%q,%q,%v,%d)", key, tr.TripID, tr.RouteID, tr.DirectionID, tr.StartTime.Unix(), u.ID.ID, u.ID.RouteID, u.ID.DirectionID, key.start)
		}
		want := ""
		if u.Vehicle != nil && u.Vehicle.ID != nil {
			want = u.Vehicle.ID.ID
		}
		if tr.VehicleID != want {
			return fail("vehicle-id", "trip %s carries vehicle %q, last applied update had %q", key, tr.VehicleID, want)
		}
		if tr.NumUpdates != s.applied {
			return fail("num-updates", "trip %s has NumUpdates=%d, %d updates were applied", key, tr.NumUpdates, s.applied)
		}
		if !tr.LastObserved.Equal(s.lastT) {
			return fail("last-observed", "trip %s LastObserved=%d, last applied update was at %d", key, tr.LastObserved.Unix(), s.lastT.Unix())
		}
		if !tEq(tr.MarkedPast, s.missingSince) {
			return fail("marked-past", "trip %s MarkedPast=%s, expected %s", key, fmtTP(tr.MarkedPast), fmtTP(s.missingSince))
		}
		if tr.MarkedPast != nil {
			for i := range tr.StopTimes {
				if tr.StopTimes[i].MarkedPast == nil {
					return fail("past-trip-with-unmarked-stop", "trip %s is marked past but stop %q is not", key, tr.StopTimes[i].StopID)
				}
			}
		}
	}
	for key := range obs {
		if state[key] == nil {
			return fail("unknown-trip-in-output", "output holds %s which no feed carried", key)
		}
	}
	return nil
}

func fmtTP(p *time.Time) string {
	if p == nil {
		return "nil"
	}
	return fmt.Sprint(p.Unix())
}
