package props

import (
	"bytes"
	"crypto/sha256"
	"fmt"
	"os"
	"runtime"
	"strings"
	"time"

	"github.com/jamespfennell/gtfs"

	"verif/gen"
	"verif/sim"
)

// Engine history (C06): histories of parse calls on long-lived option/extension objects. Oracle:
// refinement against the "fresh object" reference, in-process repetition (Go map order is sampled by
// repetition), fresh-process digests (driver), input snapshot.

func init() {
	register(&Engine{
		Prop:  "C06",
		Name:  "history",
		Level: "exploration",
		Rule: "a case is an operation sequence (input id, shared-object id, spec) on long-lived option/extension objects; distinct = distinct hash of the sequence and its inputs; " +
			"non-trivial = at least 2 calls were made on one shared object AND at least one parsed input had >= 3 members in a map-built collection (services, id-bearing vehicles, route-only trip descriptors of one alert, elevator groups)",
		Run: runC06,
		Budget: func(tier string) (int, time.Duration) {
			if tier == "thorough" {
				return 300000, 20 * time.Minute
			}
			return 5000, 40 * time.Second
		},
		Real:  []string{"gtfs.ParseRealtime", "gtfs.ParseStatic", "nycttrips / nyctalerts extension objects reused across calls", "fresh child processes of the same harness binary (digest comparison, also in the opposite call order)", "the same parsers inside testing/synctest bubbles (sub-check binary built with go1.26.8)"},
		Stubs: []string{"history generator (which object, which input, in which order)", "input pool (rich realtime messages, static table model, corrupt and truncated variants, siblings: padded cells, merged header cells, forged same-CRC-32 members)", "the clock (simulated: the bubble's fake time.Now at four instants per input)"},
		Assume: []string{
			"Go map iteration order cannot be seeded: an order defect is detected with probability >= 1-(1/6)^(R-1) per affected collection with >= 3 members (R repetitions); such failures replay with overwhelming probability, not exactly",
			"the process environment (TZ) is held fixed",
		},
		MandatoryProbes: []string{"reused-object", "failed-parse-in-history", "members>=3:services", "members>=3:vehicles", "members>=3:fallback-routes", "elevator-groups"},
	})
}

type c06Input struct {
	kind int // 0 realtime 1 static
	b    []byte
	desc string
}

func c06Reps(tier string, t *sim.T) int {
	if t.Confirm {
		return 48
	}
	if tier == "thorough" {
		return 24
	}
	return 8
}

func runC06(t *sim.T, tier string) *sim.Violation {
	// ---- inputs
	var inputs []c06Input
	nRT := t.Range(1, 3)
	for i := 0; i < nRT; i++ {
		msg := gen.RichFeedMin(t, 3)
		b := gen.MarshalFeed(msg)
		inputs = append(inputs, c06Input{0, b, fmt.Sprintf("rt%d(%dB)", i, len(b))})
		if t.Chance(1, 3) {
			if sib, n := gen.PerturbValues(t, msg); n > 0 {
				sb := gen.MarshalFeed(sib)
				inputs = append(inputs, c06Input{0, sb, fmt.Sprintf("rt%d-same-ids-other-values(%d)", i, n)})
				t.Probe("perturbed-value-sibling")
			}
		}
		if t.Chance(1, 4) {
			if sib, n := gen.IrregularIDs(t, msg); n > 0 {
				sb := gen.MarshalFeed(sib)
				inputs = append(inputs, c06Input{0, sb, fmt.Sprintf("rt%d-irregular-ids(%d)", i, n)})
				t.Probe("irregular-id-sibling")
			}
		}
		if t.Chance(1, 4) {
			if nb, d := gen.ReorderWire(t, b); d != "" {
				inputs = append(inputs, c06Input{0, nb, fmt.Sprintf("rt%d-reordered(%s)", i, d)})
			}
		}
		if t.Chance(1, 3) && msg.Header != nil {
			// the same message without a header timestamp (extensions that look at the feed time must not
			// fall back on what an earlier feed said)
			msg.Header.Timestamp = nil
			b2 := gen.MarshalFeed(msg)
			inputs = append(inputs, c06Input{0, b2, fmt.Sprintf("rt%d-no-timestamp(%dB)", i, len(b2))})
			t.Probe("input-without-timestamp")
		}
	}
	if t.Chance(1, 2) {
		src := inputs[t.Choose(nRT)].b
		var b []byte
		switch t.Choose(3) {
		case 0:
			b = append([]byte(nil), src[:t.Choose(len(src))]...)
		case 1:
			b = append([]byte(nil), src...)
			b[t.Choose(len(b))] ^= byte(1 << t.Choose(8))
		case 2:
			b = garbage(t)
		}
		inputs = append(inputs, c06Input{0, b, fmt.Sprintf("rt-corrupt(%dB)", len(b))})
	}
	nST := t.Choose(3)
	giant := tier == "thorough" && t.Chance(1, 1500)
	if giant {
		nST = 1
		t.Probe("giant-feed")
	}
	for i := 0; i < nST; i++ {
		cfg := gen.DrawStaticCfg(t, false)
		if giant {
			cfg = gen.GiantStaticCfg(t)
		}
		if cfg.Services < 3 {
			cfg.Services = 3 + t.Choose(4)
		}
		m := gen.GenStatic(t, cfg)
		// half of the static inputs carry reference faults (parent cycles, duplicate and blank ids, dangling
		// references): the parser's repairs of such input must be deterministic too
		if t.Chance(1, 2) {
			for n := t.Range(1, 3); n > 0; n-- {
				focus := gen.FocusRefs
				if t.Chance(1, 3) {
					focus = gen.FocusAll // archive layouts, raw member faults, wide tables, ...
				}
				if d := gen.MutateStatic(t, m, focus); d != "" {
					t.Logf("static%d fault: %s", i, d)
					t.Fault("record-fault-in-input")
				}
			}
		}
		// now and then thousands of rejected agency rows: each leaves a warning, so a few parses produce tens of
		// thousands of them (counters, caps and buffers that live longer than one call)
		if tb := m.Feed.Table("agency.txt"); tb != nil && len(tb.Rows) > 0 && !giant && t.Chance(1, 30) {
			if c := tb.Col("agency_name"); c >= 0 {
				for n := t.Range(1200, 4000); n > 0; n-- {
					r := append([]string(nil), tb.Rows[0]...)
					r[c] = ""
					tb.Rows = append(tb.Rows, r)
				}
				t.Probe("thousands-of-warnings-per-parse")
			}
		}
		zo := gen.DrawZipOpts(t, len(m.Feed.Tables))
		b := m.Feed.Zip(zo)
		inputs = append(inputs, c06Input{1, b, fmt.Sprintf("static%d(%s)", i, m.Summary())})
		// a sibling that differs only in the presentation of a few values (padding, case): parsing one must
		// not influence the parse of the other (caches keyed by normalised values)
		if t.Chance(1, 2) {
			sib := &gen.StaticModel{Feed: m.Feed.Clone(), Cfg: m.Cfg}
			if d := gen.PadCells(t, sib); d != "" {
				t.Logf("static%d sibling: %s", i, d)
				t.Probe("sibling-input")
				inputs = append(inputs, c06Input{1, sib.Feed.Zip(zo), fmt.Sprintf("static%d-sibling", i)})
			}
		}
		// a sibling in which one member has other content of the same length and CRC-32 (caches keyed by what the
		// archive's directory says about a member)
		if t.Chance(1, 4) {
			if sib, d := gen.ForgeCRCSibling(t, m.Feed, zo); sib != nil {
				t.Logf("static%d sibling: %s", i, d)
				t.Probe("same-crc-sibling")
				inputs = append(inputs, c06Input{1, sib.Zip(zo), fmt.Sprintf("static%d-same-crc-sibling", i)})
			}
		}
		// a sibling whose header row is a different list of cells with the same joined text (caches keyed by
		// the header as text)
		if t.Chance(1, 3) {
			sib := &gen.StaticModel{Feed: m.Feed.Clone(), Cfg: m.Cfg}
			if d := gen.MergeHeaderCells(t, sib); d != "" {
				t.Logf("static%d sibling: %s", i, d)
				t.Probe("merged-header-sibling")
				inputs = append(inputs, c06Input{1, sib.Feed.Zip(zo), fmt.Sprintf("static%d-merged-header-sibling", i)})
			}
		}
		if t.Chance(1, 4) {
			inputs = append(inputs, c06Input{1, append([]byte(nil), b[:t.Choose(len(b))]...), "static-truncated"})
		}
		if zo.Comment != "" && t.Chance(1, 2) {
			cut := 1 + t.Choose(len(zo.Comment))
			inputs = append(inputs, c06Input{1, append([]byte(nil), b[:len(b)-cut]...), fmt.Sprintf("static%d-cut-inside-archive-comment(-%dB)", i, cut)})
			t.Probe("archive-comment-cut")
		}
	}
	snaps := make([][]byte, len(inputs))
	for i := range inputs {
		snaps[i] = append([]byte(nil), inputs[i].b...)
	}
	// ---- long-lived objects
	nPool := t.Range(1, 3)
	specs := make([]ExtSpec, nPool)
	pool := make([]*gtfs.ParseRealtimeOptions, nPool)
	for i := range specs {
		specs[i] = DrawExtSpec(t)
		pool[i] = specs[i].Fresh()
		t.Logf("object #%d: %s", i, specs[i])
	}
	// optionally all pool objects share ONE extension object (state lives in the extension, not the options)
	if nPool >= 2 && specs[0].Kind >= 2 && t.Chance(1, 3) {
		specs[1].Kind, specs[1].Trips, specs[1].Alerts = specs[0].Kind, specs[0].Trips, specs[0].Alerts
		pool[1].Extension = pool[0].Extension
		t.Logf("object #1 shares the extension object of #0")
	}
	R := c06Reps(tier, t)
	if giant {
		R = 4
	}
	nOps := t.Range(2, 10)
	if giant {
		nOps = 2
	}
	useCount := map[int]int{}
	var seq strings.Builder
	big := false
	failedInHistory := false

	parse := func(in c06Input, o *gtfs.ParseRealtimeOptions, inherit bool) (strict, norm string, ok bool, v *sim.Violation) {
		if in.kind == 0 {
			r, err, pv, stack := parseRT(in.b, o)
			if pv != nil {
				return "", "", false, nil // C05's business; skip silently (probe)
			}
			_ = stack
			strict = sim.Dump(r, nil) + "err=" + errString(err)
			norm = sim.Dump(r, SortNorm) + "err=" + errString(err)
			if r != nil {
				nIDVeh := 0
				for i := range r.Vehicles {
					if r.Vehicles[i].ID != nil {
						nIDVeh++
					}
				}
				if nIDVeh >= 3 {
					big = true
					t.Probe("members>=3:vehicles")
				}
				for i := range r.Alerts {
					routeOnly := 0
					for _, ie := range r.Alerts[i].InformedEntities {
						if ie.RouteID != nil && ie.AgencyID == nil && ie.StopID == nil && ie.TripID == nil {
							routeOnly++
						}
					}
					if routeOnly >= 3 {
						big = true
						t.Probe("members>=3:fallback-routes")
					}
					if strings.Contains(r.Alerts[i].ID, "#EL") || strings.HasPrefix(r.Alerts[i].ID, "elevator:") {
						t.Probe("elevator-groups")
					}
				}
			} else {
				failedInHistory = true
			}
			return strict, norm, true, nil
		}
		s, err, pv, _ := parseST(in.b, gtfs.ParseStaticOptions{InheritWheelchairBoarding: inherit})
		if pv != nil {
			return "", "", false, nil
		}
		strict = sim.Dump(s, nil) + "err=" + errString(err)
		norm = sim.Dump(s, SortNorm) + "err=" + errString(err)
		if s != nil {
			if len(s.Services) >= 3 {
				big = true
				t.Probe("members>=3:services")
			}
		} else {
			failedInHistory = true
		}
		return strict, norm, true, nil
	}
	classify := func(a, b, an, bn string) (string, string) {
		if an == bn {
			// name the collection, not the field that happens to differ first
			p := sim.DiffPath(a, b)
			if i := strings.LastIndex(p, "[]"); i >= 0 {
				p = p[:i+2]
			}
			return "order", "C06:order:" + p
		}
		return "content", "C06:content:" + sim.DiffPath(an, bn)
	}

	type c06Op struct {
		ii, obj int
		inherit bool
		tz      int // the Timezone the caller has written into the options object by the time of this call
	}
	// the caller may edit a long-lived options object between two calls (same pointer, another Timezone): the next
	// parse must be the parse with a fresh object of the new value. planTZ is the value as planned in forward order;
	// whatever the execution order, the field is (re)written before a call whenever it differs from what the object holds
	planTZ := make([]int, nPool)
	curTZ := make([]int, nPool)
	for i := range specs {
		planTZ[i], curTZ[i] = specs[i].TZ, specs[i].TZ
	}
	ops := make([]c06Op, nOps)
	// inputs derived from the same base (an archive and its siblings) form a group: now and then the next
	// operation takes another member of the previous operation's group, so that siblings are parsed back to back
	group := func(i int) string {
		d := inputs[i].desc
		if j := strings.IndexAny(d, "-("); j >= 0 {
			d = d[:j]
		}
		return d
	}
	for k := range ops {
		ops[k] = c06Op{ii: t.Choose(len(inputs)), obj: t.Choose(nPool), inherit: t.Chance(1, 2)}
		if k > 0 && t.Chance(1, 5) {
			planTZ[ops[k].obj] = t.Weighted(3, 3, 3, 1, 1, 1, 1)
		}
		ops[k].tz = planTZ[ops[k].obj]
		if k > 0 && t.Chance(1, 3) {
			var same []int
			for i := range inputs {
				if i != ops[k-1].ii && group(i) == group(ops[k-1].ii) {
					same = append(same, i)
				}
			}
			if len(same) > 0 {
				ops[k].ii = same[t.Choose(len(same))]
				t.Probe("siblings-back-to-back")
			}
		}
		fmt.Fprintf(&seq, "%d:%d:%v:%d;", ops[k].ii, ops[k].obj, ops[k].inherit, ops[k].tz)
	}
	// VERIF_C06_ORDER=reverse (set by the driver for its fresh child processes) executes the same
	// operations in the opposite order and only computes the per-operation digests: a parse must be
	// unaffected by whatever was parsed before it, so the digests must not depend on the order.
	reverse := os.Getenv("VERIF_C06_ORDER") == "reverse"
	opDigest := make([]string, nOps)
	order := make([]int, nOps)
	for k := range order {
		order[k] = k
		if reverse {
			order[k] = nOps - 1 - k
		}
	}
	gcBetween := t.Chance(1, 6)
	for _, k := range order {
		if gcBetween {
			runtime.GC() // sync.Pool contents and finalizers: state that lives exactly until the next collection
			runtime.GC()
		}
		ii, obj, inherit := ops[k].ii, ops[k].obj, ops[k].inherit
		in := inputs[ii]
		spec := specs[obj]
		spec.TZ = ops[k].tz
		if in.kind == 0 && curTZ[obj] != ops[k].tz {
			pool[obj].Timezone = spec.Location()
			curTZ[obj] = ops[k].tz
			t.Logf("the caller sets object #%d's Timezone field: now %s", obj, spec)
			t.Probe("options-object-edited-between-calls")
		}
		var hist, histN string
		var ok bool
		if in.kind == 0 {
			useCount[obj]++
			t.Logf("op %d: ParseRealtime(%s, object #%d)", k, in.desc, obj)
			hist, histN, ok, _ = parse(in, pool[obj], false)
		} else {
			t.Logf("op %d: ParseStatic(%s, inherit=%v)", k, in.desc, inherit)
			hist, histN, ok, _ = parse(in, nil, inherit)
		}
		if !ok {
			t.Probe("panic-skip-op")
			continue
		}
		opDigest[k] = fmt.Sprintf("%x", sha256.Sum256([]byte(hist)))[:16]
		if reverse {
			continue
		}
		// (4) input unchanged
		if !bytes.Equal(in.b, snaps[ii]) {
			return &sim.Violation{Class: "input-modified", Signature: "C06:input-modified", Detail: fmt.Sprintf("op %d modified its input buffer %s", k, in.desc)}
		}
		// (1)+(2)+(5): R fresh parses, all equal to each other and to the parse made within the history
		var first, firstN string
		for r := 0; r < R; r++ {
			var fo *gtfs.ParseRealtimeOptions
			if in.kind == 0 {
				fo = spec.Fresh() // a distinct but equivalent object (fresh extension, fresh LoadLocation result is cached by ExtSpec: see below)
				if r%2 == 1 && spec.TZ == 2 {
					if l, err := time.LoadLocation("America/New_York"); err == nil {
						fo.Timezone = l
					}
				}
			}
			fs, fn, ok2, _ := parse(in, fo, inherit)
			if !ok2 {
				break
			}
			if r == 0 {
				first, firstN = fs, fn
				if fs != hist {
					class, sig := classify(hist, fs, histN, fn)
					what := "differs from the parse of the same bytes with a fresh equivalent object"
					if class == "content" && in.kind == 0 {
						sig = strings.Replace(sig, "C06:content:", "C06:history-dependence:", 1)
						class = "history-dependence"
					}
					return &sim.Violation{Class: class, Signature: sig, Detail: fmt.Sprintf("op %d (%s, object #%d %s, call #%d on that object) %s: %s", k, in.desc, obj, spec, useCount[obj], what, sim.FirstDiff(hist, fs))}
				}
				continue
			}
			if fs != first {
				class, sig := classify(first, fs, firstN, fn)
				return &sim.Violation{Class: class, Signature: sig, Detail: fmt.Sprintf("op %d (%s): repetition %d of the same fresh parse differs from repetition 0: %s", k, in.desc, r, sim.FirstDiff(first, fs))}
			}
		}
		// (5) documented equivalences between option values: a nil timezone means UTC, a nil extension
		// means no extension
		if in.kind == 0 && (spec.TZ <= 1 || spec.Kind <= 1) {
			eq := spec
			if eq.TZ <= 1 {
				eq.TZ = 1 - eq.TZ
			}
			if eq.Kind <= 1 {
				eq.Kind = 1 - eq.Kind
			}
			es, en, ok3, _ := parse(in, eq.Fresh(), inherit)
			if ok3 && first != "" && es != first {
				_, sig := classify(first, es, firstN, en)
				sig = strings.Replace(strings.Replace(sig, "C06:content:", "C06:equivalent-options:", 1), "C06:order:", "C06:equivalent-options-order:", 1)
				return &sim.Violation{Class: "equivalent-options", Signature: sig, Detail: fmt.Sprintf("op %d (%s): options %s and the documented-equivalent %s give different results: %s", k, in.desc, spec, eq, sim.FirstDiff(first, es))}
			}
			t.Probe("equivalent-options-compared")
		}
		t.Extra["sub_evaluations"] += R
	}
	reused := false
	for _, n := range useCount {
		if n >= 2 {
			reused = true
		}
	}
	if reused {
		t.Probe("reused-object")
	}
	if failedInHistory {
		t.Probe("failed-parse-in-history")
	}
	t.Digest = strings.Join(opDigest, ",")
	var inSig strings.Builder
	for _, in := range inputs {
		fmt.Fprintf(&inSig, "%x;", sim.HashBytes(in.b))
	}
	t.Case = sim.HashStrings(seq.String(), inSig.String())
	t.Nontriv = reused && big
	return nil
}
