package props

import (
	"fmt"
	"strings"
	"time"

	"github.com/jamespfennell/gtfs"
	"github.com/jamespfennell/gtfs/warnings"

	"verif/gen"
	"verif/sim"
)

// Engine rowfaults (C09): record-level fault injection with a fault-free twin. For each sampled
// well-formed base feed every single insertion (rejection cause x file x position) of the Appendix A
// catalogue is parsed next to the twin, plus random multi-insertions.

func init() {
	register(&Engine{
		Prop:  "C09",
		Name:  "rowfaults",
		Level: "fault_enumeration",
		Rule: "a case is (base feed hash, set of inserted rows with their positions); non-trivial = at least one injected row is followed by a valid row of the same file; " +
			"distinct = distinct hash. Each run enumerates every (file x rejection cause x position) single insertion for its base and adds random multi-insertions.",
		Run: runC09,
		Budget: func(tier string) (int, time.Duration) {
			if tier == "thorough" {
				return 200000, 20 * time.Minute
			}
			return 1500, 40 * time.Second
		},
		Real:  []string{"gtfs.ParseStatic (both option values)", "csv.File", "warnings.NewStaticWarning", "archive/zip + encoding/csv"},
		Stubs: []string{"table model of a well-formed static feed", "row injector (Appendix A catalogue)", "fault-free twin run"},
		Assume: []string{
			"only rejection causes the statement names are injected, in unambiguous spellings (DESIGN.md Appendix A)",
			"collections whose order is map-built (Services) are compared after sorting by content: order across calls is C06's business",
			"a warning is row-level when its RowNumber is >= 1",
		},
		MandatoryProbes: []string{"bad-row-before-valid-row", "bad-row-first", "bad-row-last", "adjacent-bad-rows", "warning-checked"},
	})
}

var staticNoWarn = &sim.DumpOpts{SortTypes: SortNorm.SortTypes, SkipFields: map[string]bool{"Static.Warnings": true}}

type injection struct {
	file  string
	cause string
	row   []string
}

var unparseableNumbers = []string{"abc", "1.5.2", "--", ".", "-.", "+.", "1e", "e5", "1 2", "0x", "-", "+", "\u0661\u0662", "1,5"}
var outOfRangeInt32 = []string{"2147483648", "4294967298", "-6442450344", "99999999999999999999", "-2147483649"}
var unparseableTimes = []string{"abc", "12:xx:00", "1:2:3:4", "06:00:00\xa0", "\x8506:00:00", "06\xa0:00:00"}
var unparseableDates = []string{"abcd", "2024-01-01", "20241301", "2024010", "20230229", "19000229", "21000229", "20240230", "20240431", "20240015", "20240100"}

// catalogue builds every rejected-row variant for one file, starting from a valid template row.
func c09Catalogue(t *sim.T, m *gen.StaticModel, tb *gen.Table, variant int) []injection {
	if len(tb.Rows) == 0 {
		return nil
	}
	var out []injection
	tmpl := func() []string { return append([]string(nil), tb.Rows[variant%len(tb.Rows)]...) }
	set := func(r []string, col, val string) bool {
		i := tb.Col(col)
		if i < 0 {
			return false
		}
		r[i] = val
		return true
	}
	add := func(cause string, mods ...string) {
		r := tmpl()
		for i := 0; i+1 < len(mods); i += 2 {
			if !set(r, mods[i], mods[i+1]) {
				// the first modification names the rejection cause: its column must exist; later ones are optional dressing
				if i == 0 {
					return
				}
			}
		}
		out = append(out, injection{tb.Name, cause, r})
	}
	fresh := func(p string) string {
		if variant%3 == 1 {
			// an id shaped like the ids other feeds of this process use (every generated feed numbers its
			// entities s0, s1, ...; r0, ...): unknown here, but known to an earlier parse
			short := map[string]string{"ag": "ag", "noagency": "ag", "r": "r", "noroute": "r", "nostop": "s", "svc": "svc", "nosvc": "svc", "t": "t", "notrip": "t"}[p]
			pool := map[string]int{"ag": len(m.AgencyIDs), "r": len(m.RouteIDs), "s": len(m.StopIDs), "svc": len(m.ServiceIDs), "t": len(m.TripIDs)}[short]
			if short != "" {
				// the next few numbers after this feed's own ids: other (larger) feeds use exactly those
				return fmt.Sprintf("%s%d", short, pool+(variant/3)%4)
			}
		}
		if variant%3 == 2 {
			// a near miss of an id that does exist: other case, other leading zeros, a trailing NUL (no white space at
			// the edges: whether the parser trims cells is not this property's business)
			pools := map[string][]string{"noagency": m.AgencyIDs, "noroute": m.RouteIDs, "nostop": m.StopIDs, "nosvc": m.ServiceIDs, "notrip": m.TripIDs}
			if ids := pools[p]; len(ids) > 0 {
				old := ids[variant%len(ids)]
				nm := []string{strings.ToUpper(old), "0" + old, "00" + old, old + ".0", old + "\x00", strings.ToLower(old), old + "_"}[(variant/3)%7]
				exists := false
				for _, id := range ids {
					if id == nm {
						exists = true
					}
				}
				if !exists {
					return nm
				}
			}
		}
		return fmt.Sprintf("%s_fresh_%d", p, variant)
	}
	pickU := func(xs []string) string { return xs[variant%len(xs)] }
	// spoil: an unparseable value for a column. Every other variant derives it from the template row's own valid
	// value (which the parser has typically seen a moment ago) by appending something invisible or tiny.
	spoil := func(col string, fallback []string) string {
		if i := tb.Col(col); i >= 0 && variant%2 == 1 {
			if r := tmpl(); i < len(r) && r[i] != "" {
				return r[i] + []string{"\x00", "\x00\x00", "x", "\u200b", "\x00 "}[(variant/2)%5]
			}
		}
		return pickU(fallback)
	}
	some := func(ids []string) string {
		if len(ids) == 0 {
			return ""
		}
		return ids[variant%len(ids)]
	}
	if len(tb.Header) >= 2 {
		// a record whose cells are all empty (",,,"): every required value is missing
		out = append(out, injection{tb.Name, "all cells blank", make([]string, len(tb.Header))})
	}
	switch tb.Name {
	case "agency.txt":
		for _, c := range []string{"agency_name", "agency_url", "agency_timezone"} {
			add("blank "+c, c, "", "agency_id", fresh("ag"))
		}
	case "routes.txt":
		add("blank route_id", "route_id", "")
		add("blank route_type", "route_type", "", "route_id", fresh("r"))
		if tb.Col("agency_id") >= 0 {
			add("unknown agency_id", "agency_id", fresh("noagency"), "route_id", fresh("r"))
			if len(m.AgencyIDs) >= 2 {
				add("blank agency_id with several agencies", "agency_id", "", "route_id", fresh("r"))
			}
		}
	case "stops.txt":
		add("blank stop_id", "stop_id", "", "parent_station", "")
		if tb.Col("parent_station") >= 0 {
			add("blank stop_id with valid parent_station", "stop_id", "", "parent_station", some(m.StopIDs))
		}
	case "transfers.txt":
		add("blank from_stop_id", "from_stop_id", "")
		add("blank to_stop_id", "to_stop_id", "")
		add("unknown from_stop_id", "from_stop_id", fresh("nostop"))
		add("unknown to_stop_id", "to_stop_id", fresh("nostop"))
		add("both stop ids unknown", "from_stop_id", fresh("nostop"), "to_stop_id", fresh("nostop")+"b")
		add("both stop ids blank", "from_stop_id", "", "to_stop_id", "")
	case "calendar.txt":
		for _, id := range []string{fresh("svc"), some(m.ServiceIDs)} {
			kind := "fresh service"
			if id == some(m.ServiceIDs) {
				kind = "existing service"
			}
			for _, c := range []string{"service_id", "monday", "tuesday", "wednesday", "thursday", "friday", "saturday", "sunday", "start_date", "end_date"} {
				if c == "service_id" {
					add("blank service_id", "service_id", "")
					continue
				}
				add("blank "+c+" ("+kind+")", c, "", "service_id", id)
			}
			add("unparseable start_date ("+kind+")", "start_date", spoil("start_date", unparseableDates), "service_id", id)
			add("unparseable end_date ("+kind+")", "end_date", spoil("end_date", unparseableDates), "service_id", id)
		}
	case "calendar_dates.txt":
		for _, id := range []string{fresh("svc"), some(m.ServiceIDs)} {
			kind := "fresh service"
			if id == some(m.ServiceIDs) {
				kind = "existing service"
			}
			add("blank date ("+kind+")", "date", "", "service_id", id)
			add("blank exception_type ("+kind+")", "exception_type", "", "service_id", id)
			add("unparseable date ("+kind+")", "date", spoil("date", unparseableDates), "service_id", id)
			add("unparseable exception_type ("+kind+")", "exception_type", spoil("exception_type", unparseableNumbers), "service_id", id)
		}
		add("blank service_id", "service_id", "")
	case "trips.txt":
		add("blank route_id", "route_id", "", "trip_id", fresh("t"))
		add("blank service_id", "service_id", "", "trip_id", fresh("t"))
		add("blank trip_id", "trip_id", "")
		add("unknown route_id", "route_id", fresh("noroute"), "trip_id", fresh("t"), "shape_id", some(m.ShapeIDs))
		add("unknown service_id", "service_id", fresh("nosvc"), "trip_id", fresh("t"), "shape_id", some(m.ShapeIDs))
	case "stop_times.txt":
		add("blank trip_id", "trip_id", "")
		add("unknown trip_id", "trip_id", fresh("notrip"))
		add("blank stop_id", "stop_id", "")
		add("unknown stop_id", "stop_id", fresh("nostop"))
		add("blank stop_sequence", "stop_sequence", "")
		add("unparseable stop_sequence", "stop_sequence", spoil("stop_sequence", unparseableNumbers))
		if tb.Col("arrival_time") >= 0 && tb.Col("departure_time") >= 0 {
			add("both times blank", "arrival_time", "", "departure_time", "")
			add("both times unparseable", "arrival_time", spoil("arrival_time", unparseableTimes), "departure_time", spoil("departure_time", unparseableTimes))
			add("one time unparseable, the other blank", "arrival_time", spoil("arrival_time", unparseableTimes), "departure_time", "")
			add("one time blank, the other unparseable", "arrival_time", "", "departure_time", spoil("departure_time", unparseableTimes))
		}
	case "shapes.txt":
		for _, c := range []string{"shape_id", "shape_pt_lat", "shape_pt_lon", "shape_pt_sequence"} {
			add("blank "+c, c, "")
		}
		for _, c := range []string{"shape_pt_lat", "shape_pt_lon", "shape_pt_sequence"} {
			add("unparseable "+c, c, spoil(c, unparseableNumbers))
		}
		add("shape_pt_sequence outside the 32-bit range", "shape_pt_sequence", pickU(outOfRangeInt32))
	case "frequencies.txt":
		for _, c := range []string{"trip_id", "start_time", "end_time", "headway_secs"} {
			add("blank "+c, c, "")
		}
		add("unknown trip_id", "trip_id", fresh("notrip"))
		add("unparseable headway_secs", "headway_secs", spoil("headway_secs", unparseableNumbers))
		add("headway_secs outside the 32-bit range", "headway_secs", pickU(outOfRangeInt32))
		add("unparseable start_time", "start_time", spoil("start_time", unparseableTimes))
		add("unparseable end_time", "end_time", spoil("end_time", unparseableTimes))
	}
	return out
}

type placed struct {
	inj injection
	pos int // insert before base data row pos (0-based); len(rows) = append
}

func runC09(t *sim.T, tier string) *sim.Violation {
	cfg := gen.DrawStaticCfg(t, false)
	// keep bases small: the single-insertion space is enumerated completely
	clampI := func(p *int, hi int) {
		if *p > hi {
			*p = hi
		}
	}
	clampI(&cfg.Routes, 6)
	clampI(&cfg.Stops, 10)
	clampI(&cfg.Trips, 8)
	clampI(&cfg.Transfers, 5)
	clampI(&cfg.Services, 5)
	clampI(&cfg.DateRows, 6)
	clampI(&cfg.Shapes, 4)
	clampI(&cfg.Freqs, 5)
	cfg.Quoting = cfg.Quoting && t.Chance(1, 2)
	m := gen.GenStatic(t, cfg)
	zo := gen.DrawZipOpts(t, len(m.Feed.Tables))
	inherit := t.Chance(1, 2)
	opts := gtfs.ParseStaticOptions{InheritWheelchairBoarding: inherit}
	t.Logf("base: %s inherit=%v", m.Summary(), inherit)
	baseZip := m.Feed.Zip(zo)
	baseHash := sim.HashBytes(baseZip)

	base, err, pv, stack := parseST(baseZip, opts)
	if pv != nil || err != nil || base == nil {
		// the fault-free configuration must work on its own; a crash here is C05's business, an error a harness problem
		if pv != nil {
			t.Probe("base-panicked-skip")
			_ = stack
			return nil
		}
		panic("harness: well-formed base feed rejected: " + errString(err))
	}
	for _, w := range base.Warnings {
		if w.RowNumber >= 1 {
			// a warning about a row the parser keeps (none exist today): tolerated, checked for consistency below
			t.Probe("base-has-row-level-warning")
		}
	}
	twin := sim.Dump(base, staticNoWarn)
	// twin == twin (the relaxation "ignore warnings" hides nothing in the fault-free configuration)
	if again, _, pv2, _ := parseST(baseZip, opts); pv2 == nil && again != nil {
		if d := sim.Dump(again, staticNoWarn); d != twin {
			t.Probe("base-not-deterministic-skip") // C06's business
			return nil
		}
	}

	check := func(pl []placed, desc string) *sim.Violation {
		f := m.Feed.Clone()
		byTable := map[string][]placed{}
		for _, p := range pl {
			byTable[p.inj.file] = append(byTable[p.inj.file], p)
		}
		injectedAt := map[string]map[int][]string{}
		for _, name := range sim.SortedKeys(byTable) {
			tb := f.Table(name)
			ps := byTable[name]
			// pos is an index into the base table ("insert before base row pos"); stable ascending order
			for i := 1; i < len(ps); i++ {
				for j := i; j > 0 && ps[j].pos < ps[j-1].pos; j-- {
					ps[j], ps[j-1] = ps[j-1], ps[j]
				}
			}
			injectedAt[name] = map[int][]string{}
			baseRows := tb.Rows
			var rows [][]string
			k := 0
			for bi := 0; bi <= len(baseRows); bi++ {
				for k < len(ps) && ps[k].pos <= bi {
					rows = append(rows, ps[k].inj.row)
					injectedAt[name][len(rows)] = ps[k].inj.row // 1-based data-row number
					k++
				}
				if bi < len(baseRows) {
					rows = append(rows, baseRows[bi])
				}
			}
			tb.Rows = rows
		}
		z := f.Zip(zo)
		got, err, pv, stack := parseST(z, opts)
		if pv != nil {
			return &sim.Violation{Class: "panic", Signature: "C09:panic:" + panicSig(pv, stack), Detail: fmt.Sprintf("%s: ParseStatic panicked (%v); the twin without the rows parses fine", desc, pv)}
		}
		if err != nil || got == nil {
			return &sim.Violation{Class: "error", Signature: "C09:error-instead-of-skip", Detail: fmt.Sprintf("%s: ParseStatic failed (%s); the twin without the rows parses fine", desc, errString(err))}
		}
		d := sim.Dump(got, staticNoWarn)
		if d != twin {
			return &sim.Violation{Class: "not-inert", Signature: "C09:not-inert:" + pl[0].inj.file + ":" + sim.DiffPath(twin, d),
				Detail: fmt.Sprintf("%s: result differs from the twin without the rows: %s", desc, sim.FirstDiff(twin, d))}
		}
		for _, w := range got.Warnings {
			if w.RowNumber < 1 {
				continue
			}
			t.Probe("warning-checked")
			rows := injectedAt[string(w.File)]
			want, ok := rows[w.RowNumber]
			if !ok {
				_, rejectedKind := w.Kind.(warnings.AgencyMissingValues)
				tb := f.Table(string(w.File))
				if rejectedKind || tb == nil || w.RowNumber > len(tb.Rows) {
					return &sim.Violation{Class: "warning", Signature: "C09:warning-wrong-row:" + string(w.File),
						Detail: fmt.Sprintf("%s: warning %q names %s row %d, which is not a rejected row (rejected rows: %v)", desc, w.Kind.Error(), w.File, w.RowNumber, keysOf(rows))}
				}
				// a warning kind this harness does not know, about a row that was not injected: it must at
				// least describe the row it names
				want = tb.Rows[w.RowNumber-1]
			}
			if !sameRow(w.RowContent, want) {
				return &sim.Violation{Class: "warning", Signature: "C09:warning-wrong-content:" + string(w.File),
					Detail: fmt.Sprintf("%s: warning for %s row %d carries cells %q, the row is %q", desc, w.File, w.RowNumber, w.RowContent, want)}
			}
		}
		return nil
	}

	n := 0
	variant := t.Choose(64)
	// ---- complete enumeration of single insertions
	for _, tb := range m.Feed.Tables {
		cat := c09Catalogue(t, m, tb, variant)
		for _, inj := range cat {
			for pos := 0; pos <= len(tb.Rows); pos++ {
				n++
				if pos < len(tb.Rows) {
					t.Probe("bad-row-before-valid-row")
					t.Cases = append(t.Cases, sim.HashStrings(fmt.Sprint(baseHash), inj.file, inj.cause, fmt.Sprint(pos)))
				}
				if pos == 0 {
					t.Probe("bad-row-first")
				}
				if pos == len(tb.Rows) {
					t.Probe("bad-row-last")
				}
				desc := fmt.Sprintf("insert into %s at data row %d: %s %q", inj.file, pos+1, inj.cause, inj.row)
				if n%97 == 1 && n < 700 {
					t.Logf("e.g. %s", desc) // a few of the enumerated insertions, for the evidence sample
				}
				if v := check([]placed{{inj, pos}}, desc); v != nil {
					t.Logf("%s", desc)
					return v
				}
			}
		}
	}
	// ---- random multi-insertions
	multi := t.Range(2, 6)
	for k := 0; k < multi; k++ {
		var pl []placed
		cnt := t.Range(2, 10)
		var desc strings.Builder
		for i := 0; i < cnt; i++ {
			tb := m.Feed.Tables[t.Choose(len(m.Feed.Tables))]
			cat := c09Catalogue(t, m, tb, t.Choose(64))
			if len(cat) == 0 {
				continue
			}
			inj := cat[t.Choose(len(cat))]
			pos := t.Choose(len(tb.Rows) + 1)
			if len(pl) > 0 && t.Chance(1, 3) {
				// adjacent to the previous bad row
				prev := pl[len(pl)-1]
				if ptb := m.Feed.Table(prev.inj.file); ptb != nil {
					c2 := c09Catalogue(t, m, ptb, t.Choose(64))
					if len(c2) > 0 {
						inj = c2[t.Choose(len(c2))]
						pos = prev.pos
						t.Probe("adjacent-bad-rows")
					}
				}
			}
			pl = append(pl, placed{inj, pos})
			fmt.Fprintf(&desc, "[%s@%d %s] ", inj.file, pos+1, inj.cause)
			if t.Chance(1, 3) {
				// the very same rejected row once more, directly after or a few rows later (a memo keyed by
				// the offending value must not accept the repetition)
				pos2 := pos
				if tb2 := m.Feed.Table(inj.file); tb2 != nil && t.Chance(1, 2) {
					pos2 = pos + t.Choose(len(tb2.Rows)-pos+1)
				}
				pl = append(pl, placed{inj, pos2})
				fmt.Fprintf(&desc, "[%s@%d same row again] ", inj.file, pos2+1)
				t.Probe("repeated-identical-bad-row")
			}
		}
		if len(pl) == 0 {
			continue
		}
		n++
		t.Cases = append(t.Cases, sim.HashStrings(fmt.Sprint(baseHash), desc.String()))
		if v := check(pl, "multi-insertion "+desc.String()); v != nil {
			t.Logf("multi-insertion %s", desc.String())
			return v
		}
	}
	// ---- flood: "any number of such rows" - a hundred or more rejected rows in ONE file (a per-file budget, counter
	// or buffer that only the first few dozen rejections stay within), spread over the file or in one block
	if t.Chance(1, 5) {
		tb := m.Feed.Tables[t.Choose(len(m.Feed.Tables))]
		cat := c09Catalogue(t, m, tb, t.Choose(64))
		if len(cat) > 0 {
			cnt := t.Range(101, 420)
			oneCause := t.Chance(1, 2)
			block := t.Chance(1, 3)
			inj := cat[t.Choose(len(cat))]
			pos := t.Choose(len(tb.Rows) + 1)
			var pl []placed
			for i := 0; i < cnt; i++ {
				if !oneCause {
					inj = cat[t.Choose(len(cat))]
				}
				if !block {
					pos = t.Choose(len(tb.Rows) + 1)
				}
				pl = append(pl, placed{inj, pos})
			}
			t.Probe("flood-of-bad-rows-in-one-file")
			n++
			desc := fmt.Sprintf("flood of %d rejected rows in %s (one cause: %v, one block: %v; first: %s %q)", cnt, tb.Name, oneCause, block, pl[0].inj.cause, pl[0].inj.row)
			t.Cases = append(t.Cases, sim.HashStrings(fmt.Sprint(baseHash), desc))
			if v := check(pl, desc); v != nil {
				t.Logf("%s", desc)
				return v
			}
		}
	}
	t.Extra["sub_evaluations"] += n
	t.Logf("%d insertions checked against the twin", n)
	t.Case = sim.HashStrings(fmt.Sprint(baseHash), "base")
	t.Nontriv = n > 0
	return nil
}

func sameRow(a, b []string) bool {
	if len(a) != len(b) {
		return false
	}
	for i := range a {
		if a[i] != b[i] {
			return false
		}
	}
	return true
}

func keysOf(m map[int][]string) []int {
	var ks []int
	for k := range m {
		ks = append(ks, k)
	}
	for i := range ks {
		for j := i + 1; j < len(ks); j++ {
			if ks[j] < ks[i] {
				ks[i], ks[j] = ks[j], ks[i]
			}
		}
	}
	return ks
}

var _ = time.Second
