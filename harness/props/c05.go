package props

import (
	"crypto/sha256"
	"errors"
	"fmt"
	"io"
	"reflect"
	"runtime"
	"strings"
	"time"

	"github.com/jamespfennell/gtfs"
	"github.com/jamespfennell/gtfs/constants"
	"github.com/jamespfennell/gtfs/csv"
	"github.com/jamespfennell/gtfs/journal"
	gtfsrt "github.com/jamespfennell/gtfs/proto"
	"google.golang.org/protobuf/encoding/protowire"
	"google.golang.org/protobuf/proto"

	"verif/gen"
	"verif/sim"
)

// Engine crash (C05): seeded fault injection on stored bytes, on the csv.New reader seam, on records
// and on protobuf fields, plus faulted feed sequences into the journal; crash/termination oracle.

func init() {
	register(&Engine{
		Prop:  "C05",
		Name:  "crash",
		Level: "exploration",
		Rule: "a case is one faulted input (hash of the bytes / reader script / feed sequence) together with its outcome class (accepted or rejected-with-error); " +
			"non-trivial = at least one fault was applied (record, byte, reader or field fault); distinct = distinct (mode, input hash, outcome class)",
		Run: runC05,
		Budget: func(tier string) (int, time.Duration) {
			if tier == "thorough" {
				return 6000000, 25 * time.Minute
			}
			return 700000, 45 * time.Second
		},
		Real: []string{"gtfs.ParseStatic (both option values)", "gtfs.ParseRealtime (no extension, nycttrips x4, nyctalerts x24, 3 timezones)", "csv.New / NextRow / column readers / Close",
			"Stop.Root, Trip.Hash, Vehicle.Hash, nil-safe getters, enum String()", "journal.BuildJournal", "Journal.ExportToCsv", "archive/zip, encoding/csv, protobuf runtime"},
		Stubs: []string{"table model + record-fault injector", "byte-fault injector (truncate/flip/zero/splice, torn stored zip member, header faults)", "faulty io.ReadCloser (chunking, error/EOF at exact offsets, close error)", "protobuf field-fault injector", "feed-sequence generator for the journal"},
		Assume: []string{
			"no schedule and no clock for the two parse entry points: this is fault injection on data at rest and on the read path (DESIGN.md §4 C05)",
			"resource exhaustion (zip bombs, huge allocations) is excluded by the property's own quantifier; inputs stay below 64 KiB decompressed",
			"Root is never called blindly: a bounded walk first decides whether the parent graph has a cycle; a cycle is reported as non-termination and confirmed by actually calling Root under a timeout on replay",
		},
		MandatoryProbes: []string{"static-accepted-with-fault", "static-rejected", "realtime-accepted-with-fault", "realtime-rejected", "csvseam-mid-file-error-after-rows", "journal-short-trip-id", "journal-nil-stop-id", "torn-stored-member"},
	})
}

// callStringers walks a result and calls String()/Error() on everything that has them.
func callStringers(v reflect.Value, seen map[uintptr]bool, depth int) {
	if !v.IsValid() || depth > 12 {
		return
	}
	if v.CanInterface() && v.Kind() != reflect.Ptr && v.Kind() != reflect.Struct && v.Kind() != reflect.Slice {
		switch x := v.Interface().(type) {
		case fmt.Stringer:
			_ = x.String()
		case error:
			_ = x.Error()
		}
	}
	switch v.Kind() {
	case reflect.Ptr:
		if v.IsNil() || seen[v.Pointer()] {
			return
		}
		seen[v.Pointer()] = true
		callStringers(v.Elem(), seen, depth+1)
	case reflect.Interface:
		if !v.IsNil() {
			if v.CanInterface() {
				if e, ok := v.Interface().(error); ok {
					_ = e.Error()
				}
			}
			callStringers(v.Elem(), seen, depth+1)
		}
	case reflect.Struct:
		if v.Type().PkgPath() == "time" {
			return
		}
		for i := 0; i < v.NumField(); i++ {
			callStringers(v.Field(i), seen, depth+1)
		}
	case reflect.Slice, reflect.Array:
		if v.Type().Elem().Kind() == reflect.Uint8 {
			return
		}
		for i := 0; i < v.Len(); i++ {
			callStringers(v.Index(i), seen, depth+1)
		}
	}
}

func exerciseRealtime(r *gtfs.Realtime) {
	h := sha256.New()
	for i := range r.Trips {
		tr := &r.Trips[i]
		tr.Hash(h)
		v := tr.GetVehicle()
		v.Hash(h)
		_ = v.GetID()
		_ = v.GetTrip()
		if tr.Vehicle != nil {
			tr.Vehicle.Hash(h)
		}
		for k := range tr.StopTimeUpdates {
			_ = tr.StopTimeUpdates[k].GetArrival()
			_ = tr.StopTimeUpdates[k].GetDeparture()
		}
	}
	for i := range r.Vehicles {
		v := &r.Vehicles[i]
		v.Hash(h)
		_ = v.GetID()
		tp := v.GetTrip()
		tp.Hash(h)
		if v.Trip != nil {
			v.Trip.Hash(h)
		}
	}
	var nilTrip *gtfs.Trip
	var nilVeh *gtfs.Vehicle
	var nilSTU *gtfs.StopTimeUpdate
	_ = nilTrip.GetVehicle()
	_ = nilVeh.GetID()
	_ = nilVeh.GetTrip()
	_ = nilSTU.GetArrival()
	_ = nilSTU.GetDeparture()
	callStringers(reflect.ValueOf(r), map[uintptr]bool{}, 0)
}

// c05Giant parses one giant (but valid) feed, once at the worker's GOMAXPROCS and once with a single
// processor: code paths that only exist beyond tens of thousands of rows or on one-CPU hosts.
func c05Giant(t *sim.T) *sim.Violation {
	m := gen.GenStatic(t, gen.GiantStaticCfg(t))
	z := m.Feed.Zip(gen.ZipOpts{})
	t.Logf("giant feed: %s (%d bytes)", m.Summary(), len(z))
	t.Probe("giant-feed")
	for _, procs := range []int{0, 1} {
		prev := 0
		if procs > 0 {
			prev = runtime.GOMAXPROCS(procs)
			t.Logf("GOMAXPROCS=%d", procs)
		}
		s, err, pv, stack := parseST(z, gtfs.ParseStaticOptions{})
		if procs > 0 {
			runtime.GOMAXPROCS(prev)
		}
		if pv != nil {
			return crash("ParseStatic on a giant feed", pv, stack)
		}
		if err == nil && s != nil && !acyclic(s) {
			return &sim.Violation{Class: "non-termination", Signature: "C05:non-termination:Stop.Root", Detail: "cycle in a giant feed"}
		}
	}
	t.Case = sim.HashStrings("giant", fmt.Sprint(sim.HashBytes(z)))
	t.Nontriv = true
	return nil
}

func runC05(t *sim.T, tier string) *sim.Violation {
	if tier == "thorough" && t.Chance(1, 20000) {
		return c05Giant(t)
	}
	if t.Chance(1, 2500) {
		return c05LongJournal(t)
	}
	switch t.Weighted(4, 4, 2, 3) {
	case 0:
		return c05Static(t)
	case 1:
		return c05Realtime(t)
	case 2:
		return c05CsvSeam(t)
	default:
		return c05Journal(t)
	}
}

func crash(where string, pv any, stack string) *sim.Violation {
	return &sim.Violation{Class: "panic", Signature: "C05:panic:" + panicSig(pv, stack), Detail: fmt.Sprintf("%s panicked: %v\n%s", where, pv, sim.Clip(stack, 1800))}
}

// ---------------------------------------------------------------------------------------

func c05Static(t *sim.T) *sim.Violation {
	m := gen.GenStatic(t, gen.DrawStaticCfg(t, t.Chance(1, 4)))
	nf := t.Weighted(2, 4, 3, 2)
	faulted := false
	for i := 0; i < nf; i++ {
		if d := gen.MutateStatic(t, m, gen.FocusAll); d != "" {
			t.Logf("record fault: %s", d)
			t.Fault("record-fault")
			faulted = true
		}
	}
	zo := gen.DrawZipOpts(t, len(m.Feed.Tables))
	z := m.Feed.Zip(zo)
	if t.Chance(1, 3) {
		var d string
		var nz []byte
		switch t.Choose(5) {
		case 4:
			nz, d = gen.ZipForgedSizes(t, m.Feed, zo)
			t.Fault("zip-declared-size-lies")
		case 0, 1:
			nz, d = gen.MutateBytes(t, z, z)
			t.Fault("byte-fault")
		case 2:
			nz, d = gen.TearZipMember(t, z)
			if nz != nil {
				t.Fault("torn-stored-member")
				t.Probe("torn-stored-member")
			}
		case 3:
			nz, d = gen.ZipHeaderFault(t, z)
			t.Fault("zip-header-fault")
		}
		if nz != nil && d != "" {
			z = nz
			faulted = true
			t.Logf("byte fault: %s", d)
		}
	}
	t.Logf("feed: %s (%d bytes)", m.Summary(), len(z))
	outcome := ""
	for _, inherit := range []bool{false, true} {
		s, err, pv, stack := parseST(z, gtfs.ParseStaticOptions{InheritWheelchairBoarding: inherit})
		if pv != nil {
			return crash(fmt.Sprintf("ParseStatic(inherit=%v)", inherit), pv, stack)
		}
		if err != nil || s == nil {
			outcome += "E"
			t.Probe("static-rejected")
			if strings.Contains(errString(err), "checksum") {
				t.Probe("static-mid-file-read-error")
			}
			continue
		}
		outcome += "A"
		if faulted {
			t.Probe("static-accepted-with-fault")
		}
		if !acyclic(s) {
			v := &sim.Violation{Class: "non-termination", Signature: "C05:non-termination:Stop.Root", Detail: "ParseStatic accepted a feed whose parent links form a cycle: Stop.Root never returns on it"}
			if t.Confirm {
				done := make(chan bool, 1)
				go func() {
					for i := range s.Stops {
						s.Stops[i].Root()
					}
					done <- true
				}()
				select {
				case <-done:
					return nil
				case <-time.After(3 * time.Second):
					v.Detail += " [confirmed: Root() did not return within 3 s]"
				}
			}
			return v
		}
		pv2, st2 := guard(func() {
			for i := range s.Stops {
				_ = s.Stops[i].Root()
			}
			callStringers(reflect.ValueOf(s), map[uintptr]bool{}, 0)
		})
		if pv2 != nil {
			return crash("accessors on the static result", pv2, st2)
		}
	}
	t.Case = sim.HashStrings("static", fmt.Sprint(sim.HashBytes(z)), outcome)
	t.Nontriv = faulted
	return nil
}

// ---------------------------------------------------------------------------------------
// protobuf field faults

func rawExt(num protowire.Number, payload []byte, wt protowire.Type) []byte {
	b := protowire.AppendTag(nil, num, wt)
	switch wt {
	case protowire.BytesType:
		b = protowire.AppendBytes(b, payload)
	case protowire.VarintType:
		b = protowire.AppendVarint(b, 12345)
	case protowire.Fixed32Type:
		b = protowire.AppendFixed32(b, 7)
	}
	return b
}

// fieldFault applies one fault to the message and returns its description ("" if not applicable).
func fieldFault(t *sim.T, m *gtfsrt.FeedMessage) string {
	var tus []*gtfsrt.TripUpdate
	var vps []*gtfsrt.VehiclePosition
	var alerts []*gtfsrt.FeedEntity
	for _, e := range m.Entity {
		if e.TripUpdate != nil {
			tus = append(tus, e.TripUpdate)
		}
		if e.Vehicle != nil {
			vps = append(vps, e.Vehicle)
		}
		if e.Alert != nil {
			alerts = append(alerts, e)
		}
	}
	s := func(v string) *string { return &v }
	switch t.Choose(25) {
	case 0:
		if len(tus) == 0 {
			return ""
		}
		tu := tus[t.Choose(len(tus))]
		if tu.Trip == nil {
			return ""
		}
		id := tu.Trip.GetTripId()
		switch t.Choose(4) {
		case 0:
			n := t.Choose(6)
			if n > len(id) {
				n = len(id)
			}
			tu.Trip.TripId = s(id[:n])
		case 1:
			tu.Trip.TripId = s("")
		case 2:
			tu.Trip.TripId = nil
		case 3:
			tu.Trip.TripId = s(id[:min(len(id), 6)])
		}
		t.Probe("fault-short-trip-id")
		return fmt.Sprintf("trip id %q -> %q", id, tu.Trip.GetTripId())
	case 1:
		if len(tus) == 0 {
			return ""
		}
		tu := tus[t.Choose(len(tus))]
		if len(tu.StopTimeUpdate) == 0 {
			return ""
		}
		i := t.Choose(len(tu.StopTimeUpdate))
		tu.StopTimeUpdate[i].StopId = nil
		t.Probe("fault-nil-stop-id")
		return fmt.Sprintf("stop_id of stop time update %d removed", i)
	case 2:
		if m.Header == nil {
			return ""
		}
		switch t.Choose(3) {
		case 0:
			m.Header.Timestamp = nil
		case 1:
			v := uint64(1) << 63
			m.Header.Timestamp = &v
		case 2:
			v := ^uint64(0)
			m.Header.Timestamp = &v
		}
		return "header timestamp nil/huge"
	case 3:
		if len(tus) == 0 {
			return ""
		}
		tu := tus[t.Choose(len(tus))]
		for _, u := range tu.StopTimeUpdate {
			if u.Arrival != nil && t.Chance(1, 2) {
				v := []int64{-1 << 63, 1<<63 - 1, 0, -1}[t.Choose(4)]
				u.Arrival.Time = &v
				d := []int32{-1 << 31, 1<<31 - 1}[t.Choose(2)]
				u.Arrival.Delay = &d
			}
		}
		return "extreme stop time event values"
	case 4:
		if len(m.Entity) < 2 {
			return ""
		}
		a, b := m.Entity[t.Choose(len(m.Entity))], m.Entity[t.Choose(len(m.Entity))]
		if b.TripUpdate != nil && a.TripUpdate == nil {
			a.TripUpdate = b.TripUpdate
		}
		if b.Alert != nil && a.Alert == nil {
			a.Alert = b.Alert
		}
		if b.Vehicle != nil && a.Vehicle == nil {
			a.Vehicle = b.Vehicle
		}
		return "entity carries several payloads"
	case 5:
		if len(tus) == 0 {
			return ""
		}
		tus[t.Choose(len(tus))].Trip = nil
		return "trip_update.trip removed (required)"
	case 6:
		if len(tus) == 0 {
			return ""
		}
		tu := tus[t.Choose(len(tus))]
		if tu.Trip != nil {
			proto.SetExtension(tu.Trip, gtfsrt.E_NyctTripDescriptor, &gtfsrt.NyctTripDescriptor{})
		}
		for _, u := range tu.StopTimeUpdate {
			proto.SetExtension(u, gtfsrt.E_NyctStopTimeUpdate, &gtfsrt.NyctStopTimeUpdate{})
		}
		return "NYCT extensions present but empty"
	case 7:
		if len(alerts) == 0 {
			return ""
		}
		a := alerts[t.Choose(len(alerts))].Alert
		var so string
		if t.Chance(2, 3) {
			// well-shaped prefix, odd priority
			so = "MTASBWY:" + []string{"L", "G", ""}[t.Choose(3)] + ":" + []string{"-3", "-1", "-2147483649", "2147483650", "4294967297", "99999999999999999999", "0", "7", "+5", "", "x", "1e3", "-0", "40", "41", "0x10", "-", "+", " 7", "7 ", "-x", "٣"}[t.Choose(22)]
		} else {
			so = grammarString(t, []string{":", "-", "7", "99999999999999999999", "a", "MTASBWY", " ", "L", "+", "0"}, 5)
		}
		for _, ie := range a.InformedEntity {
			proto.SetExtension(ie, gtfsrt.E_MercuryEntitySelector, &gtfsrt.MercuryEntitySelector{SortOrder: &so})
		}
		if len(a.InformedEntity) == 0 {
			ie := &gtfsrt.EntitySelector{}
			proto.SetExtension(ie, gtfsrt.E_MercuryEntitySelector, &gtfsrt.MercuryEntitySelector{SortOrder: &so})
			a.InformedEntity = append(a.InformedEntity, ie)
		}
		return fmt.Sprintf("mercury sort_order %q", so)
	case 8:
		if len(alerts) == 0 {
			return ""
		}
		e := alerts[t.Choose(len(alerts))]
		id := grammarString(t, []string{"#EL", "A", "27", "N", "S", "#", "EL", ":", "lmm:planned_work", "lmm:alert", "elevator:", "1", "é"}, 6)
		e.Id = &id
		return fmt.Sprintf("alert id %q", id)
	case 9:
		if len(m.Entity) == 0 {
			return ""
		}
		m.Entity[t.Choose(len(m.Entity))].Id = nil
		return "entity id removed (required)"
	case 10:
		if len(tus) == 0 {
			return ""
		}
		tu := tus[t.Choose(len(tus))]
		if tu.Trip == nil {
			return ""
		}
		wt := []protowire.Type{protowire.VarintType, protowire.BytesType, protowire.Fixed32Type}[t.Choose(3)]
		tu.Trip.ProtoReflect().SetUnknown(rawExt(1001, garbage(t), wt))
		proto.ClearExtension(tu.Trip, gtfsrt.E_NyctTripDescriptor)
		return "corrupt bytes in extension field 1001 of a trip descriptor"
	case 11:
		if len(tus) == 0 {
			return ""
		}
		tu := tus[t.Choose(len(tus))]
		if tu.Trip == nil {
			return ""
		}
		if t.Chance(1, 2) {
			tu.Trip.StartTime = s([]string{"25:99:99", "99:99:99", "1:2:3", "", "ab:cd:ef", "24:00:00"}[t.Choose(6)])
			tu.Trip.StartDate = s([]string{"99999999", "00000000", "20241301", "2024-01-01", "", "20240230"}[t.Choose(6)])
		} else {
			tu.Trip.StartTime = s(grammarString(t, []string{":", "0", "9", "25", "99", "-", " "}, 6))
			tu.Trip.StartDate = s(grammarString(t, []string{"2024", "0", "13", "99", "00", "-", "31"}, 5))
		}
		return "odd start_time / start_date"
	case 12:
		if len(vps) == 0 {
			return ""
		}
		vp := vps[t.Choose(len(vps))]
		vp.Position = &gtfsrt.Position{}
		return "position without required lat/lon"
	case 13:
		if len(tus) == 0 {
			return ""
		}
		tu := tus[t.Choose(len(tus))]
		if tu.Trip == nil {
			return ""
		}
		d := uint32(t.Range(2, 9))
		tu.Trip.DirectionId = &d
		sr := gtfsrt.TripDescriptor_ScheduleRelationship(99)
		tu.Trip.ScheduleRelationship = &sr
		return "direction_id / schedule_relationship out of range"
	case 14:
		if len(vps) == 0 {
			return ""
		}
		vp := vps[t.Choose(len(vps))]
		vp.Vehicle = &gtfsrt.VehicleDescriptor{Id: s(""), Label: s(""), LicensePlate: s("")}
		return "vehicle descriptor with empty strings"
	case 15:
		if len(alerts) == 0 {
			return ""
		}
		a := alerts[t.Choose(len(alerts))].Alert
		a.HeaderText = &gtfsrt.TranslatedString{Translation: []*gtfsrt.TranslatedString_Translation{{}}}
		a.DescriptionText = nil
		a.ActivePeriod = []*gtfsrt.TimeRange{{}, {Start: func() *uint64 { v := ^uint64(0); return &v }()}}
		return "alert texts without required text, empty active periods"
	case 16:
		if len(alerts) == 0 {
			return ""
		}
		a := alerts[t.Choose(len(alerts))].Alert
		proto.SetExtension(a, gtfsrt.E_MercuryAlert, &gtfsrt.MercuryAlert{})
		return "mercury alert extension present but empty"
	case 17:
		if len(tus) == 0 {
			return ""
		}
		tu := tus[t.Choose(len(tus))]
		tu.StopTimeUpdate = append(tu.StopTimeUpdate, &gtfsrt.TripUpdate_StopTimeUpdate{})
		return "empty stop time update appended"
	case 18:
		m.Entity = append(m.Entity, &gtfsrt.FeedEntity{Id: s("empty")})
		return "entity without payload"
	case 19:
		if len(tus) == 0 {
			return ""
		}
		tu := tus[t.Choose(len(tus))]
		if tu.Trip != nil {
			tu.Trip.RouteId = s("M")
		}
		for i, u := range tu.StopTimeUpdate {
			u.StopId = s([]string{"M11", "M11NN", "M1", "", "M18S", "M16N", "ü11N"}[(i+t.Choose(7))%7])
		}
		return "M-train stop ids of odd lengths"
	case 20:
		if len(alerts) == 0 {
			return ""
		}
		a := alerts[t.Choose(len(alerts))].Alert
		a.InformedEntity = append(a.InformedEntity, &gtfsrt.EntitySelector{Trip: &gtfsrt.TripDescriptor{}}, &gtfsrt.EntitySelector{}, &gtfsrt.EntitySelector{Trip: &gtfsrt.TripDescriptor{RouteId: s("")}})
		return "informed entities that inform nothing"
	case 21:
		m.Header = nil
		return "header removed (required)"
	case 23:
		// schedule relationships: every (or some) stop time update SKIPPED / NO_DATA, the trip itself CANCELED / ADDED
		if len(tus) == 0 {
			return ""
		}
		tu := tus[t.Choose(len(tus))]
		all := t.Chance(1, 2)
		for _, u := range tu.StopTimeUpdate {
			if all || t.Chance(1, 2) {
				sr := []gtfsrt.TripUpdate_StopTimeUpdate_ScheduleRelationship{gtfsrt.TripUpdate_StopTimeUpdate_SKIPPED, gtfsrt.TripUpdate_StopTimeUpdate_NO_DATA, gtfsrt.TripUpdate_StopTimeUpdate_ScheduleRelationship(7)}[t.Choose(3)]
				u.ScheduleRelationship = &sr
				if t.Chance(1, 2) {
					u.Arrival, u.Departure = nil, nil
				}
			}
		}
		if tu.Trip != nil && t.Chance(1, 2) {
			sr := []gtfsrt.TripDescriptor_ScheduleRelationship{gtfsrt.TripDescriptor_CANCELED, gtfsrt.TripDescriptor_ADDED, gtfsrt.TripDescriptor_UNSCHEDULED}[t.Choose(3)]
			tu.Trip.ScheduleRelationship = &sr
		}
		if tu.Trip != nil && t.Chance(1, 2) {
			// make it an unassigned NYCT trip so that the staleness filter looks at these stops
			proto.SetExtension(tu.Trip, gtfsrt.E_NyctTripDescriptor, &gtfsrt.NyctTripDescriptor{IsAssigned: func() *bool { b := false; return &b }()})
			tu.Vehicle = nil
		}
		return "stop time updates SKIPPED / NO_DATA, trip CANCELED / ADDED"
	case 24:
		// informed entities that carry a non-identifying trip descriptor together with other selectors
		if len(alerts) == 0 {
			return ""
		}
		a := alerts[t.Choose(len(alerts))].Alert
		for n := t.Range(1, 3); n > 0; n-- {
			es := &gtfsrt.EntitySelector{Trip: &gtfsrt.TripDescriptor{RouteId: s([]string{"M15", "B41", ""}[t.Choose(3)])}}
			switch t.Choose(4) {
			case 0:
				es.StopId = s("S1")
			case 1:
				es.AgencyId = s("MTA")
			case 2:
				rt := int32(3)
				es.RouteType = &rt
			case 3:
				es.RouteId = s("Q10")
			}
			if t.Chance(1, 2) {
				es.Trip.DirectionId = pu32c(uint32(t.Choose(2)))
			}
			a.InformedEntity = append(a.InformedEntity, es)
		}
		return "selectors with a route-only trip descriptor plus a stop / agency / route type / other route"
	case 22:
		// a long trip whose stop time updates carry no stop id and no track (stops identified by sequence only)
		if len(tus) == 0 {
			return ""
		}
		tu := tus[t.Choose(len(tus))]
		want := []int{5, 18, 40, 120, 400}[t.Choose(5)]
		for len(tu.StopTimeUpdate) > 0 && len(tu.StopTimeUpdate) < want {
			src := tu.StopTimeUpdate[len(tu.StopTimeUpdate)%len(tu.StopTimeUpdate)]
			cp := proto.Clone(src).(*gtfsrt.TripUpdate_StopTimeUpdate)
			tu.StopTimeUpdate = append(tu.StopTimeUpdate, cp)
		}
		for i, u := range tu.StopTimeUpdate {
			u.StopId = nil
			seq := uint32(i + 1)
			u.StopSequence = &seq
			proto.ClearExtension(u, gtfsrt.E_NyctStopTimeUpdate)
			if u.Arrival == nil {
				u.Arrival = &gtfsrt.TripUpdate_StopTimeEvent{}
			}
			if u.Departure == nil {
				u.Departure = &gtfsrt.TripUpdate_StopTimeEvent{}
			}
			tm := int64(1705312800 + i*60)
			d, un := int32(i), int32(30)
			u.Arrival.Time, u.Arrival.Delay, u.Arrival.Uncertainty = &tm, &d, &un
			u.Departure.Time, u.Departure.Delay, u.Departure.Uncertainty = &tm, &d, &un
		}
		t.Probe("fault-long-trip-without-stop-ids")
		return fmt.Sprintf("trip with %d stop time updates, none with a stop id or track", len(tu.StopTimeUpdate))
	}
	return ""
}

func pu32c(v uint32) *uint32 { return &v }

// grammarString concatenates up to maxN pieces (possibly none).
func grammarString(t *sim.T, pieces []string, maxN int) string {
	var sb strings.Builder
	for n := t.Choose(maxN + 1); n > 0; n-- {
		sb.WriteString(pieces[t.Choose(len(pieces))])
	}
	return sb.String()
}

func c05BuildFeed(t *sim.T, journalShaped bool) (*gtfsrt.FeedMessage, int) {
	var m *gtfsrt.FeedMessage
	if journalShaped {
		cfg := gen.DrawWorldCfg(t)
		w := gen.NewWorld(t, cfg)
		for i := 0; i < 1+t.Choose(3); i++ {
			m = w.Tick()
		}
	} else {
		m = gen.RichFeed(t)
	}
	nf := t.Weighted(2, 4, 3, 2)
	applied := 0
	for i := 0; i < nf; i++ {
		if d := fieldFault(t, m); d != "" {
			t.Logf("field fault: %s", d)
			t.Fault("field-fault")
			applied++
		}
	}
	return m, applied
}

func c05Realtime(t *sim.T) *sim.Violation {
	var b []byte
	faults := 0
	if t.Chance(1, 8) {
		b = garbage(t)
		faults = 1
		t.Logf("random bytes (%d)", len(b))
	} else {
		m, n := c05BuildFeed(t, false)
		faults = n
		b = gen.MarshalFeed(m)
		if t.Chance(1, 6) {
			if nb, d := gen.ReorderWire(t, b); d != "" {
				b = nb
				t.Logf("wire presentation: %s", d)
				t.Fault("non-canonical-wire-order")
			}
		}
		if t.Chance(1, 3) {
			other := b
			nb, d := gen.MutateBytes(t, b, other)
			if d != "" {
				b = nb
				faults++
				t.Logf("byte fault: %s", d)
				t.Fault("byte-fault")
			}
		}
	}
	outcome := ""
	nSpecs := t.Range(1, 3)
	for i := 0; i < nSpecs; i++ {
		spec := DrawExtSpec(t)
		t.Logf("ParseRealtime with %s", spec)
		r, err, pv, stack := parseRT(append([]byte(nil), b...), spec.Fresh())
		if pv != nil {
			return crash("ParseRealtime("+spec.String()+")", pv, stack)
		}
		if err != nil || r == nil {
			outcome += "E"
			t.Probe("realtime-rejected")
			continue
		}
		outcome += "A"
		if faults > 0 {
			t.Probe("realtime-accepted-with-fault")
		}
		pv2, st2 := guard(func() { exerciseRealtime(r) })
		if pv2 != nil {
			return crash("accessors on the realtime result", pv2, st2)
		}
	}
	t.Case = sim.HashStrings("realtime", fmt.Sprint(sim.HashBytes(b)), outcome)
	t.Nontriv = faults > 0
	return nil
}

// ---------------------------------------------------------------------------------------
// csv seam

type faultyReader struct {
	t        *sim.T
	data     []byte
	pos      int
	errAt    int // -1: none
	err      error
	closeErr error
	maxChunk int
	zeroRead bool
	closed   int
}

var errInjected = errors.New("injected read error")

func (r *faultyReader) Read(p []byte) (int, error) {
	if len(p) == 0 {
		return 0, nil
	}
	if r.errAt >= 0 && r.pos >= r.errAt {
		return 0, r.err
	}
	if r.pos >= len(r.data) {
		return 0, io.EOF
	}
	if r.zeroRead && r.t.Chance(1, 40) {
		return 0, nil
	}
	n := r.t.Range(1, r.maxChunk)
	if n > len(p) {
		n = len(p)
	}
	if n > len(r.data)-r.pos {
		n = len(r.data) - r.pos
	}
	if r.errAt >= 0 && n > r.errAt-r.pos {
		n = r.errAt - r.pos
	}
	copy(p, r.data[r.pos:r.pos+n])
	r.pos += n
	// data together with the error is legal for an io.Reader
	if r.errAt >= 0 && r.pos >= r.errAt && r.t.Chance(1, 3) {
		return n, r.err
	}
	return n, nil
}

func (r *faultyReader) Close() error { r.closed++; return r.closeErr }

func c05CsvSeam(t *sim.T) *sim.Violation {
	m := gen.GenStatic(t, gen.DrawStaticCfg(t, false))
	if t.Chance(1, 2) {
		if d := gen.MutateStatic(t, m, gen.FocusAll); d != "" {
			t.Logf("record fault: %s", d)
		}
	}
	if len(m.Feed.Tables) == 0 {
		return nil
	}
	tb := m.Feed.Tables[t.Choose(len(m.Feed.Tables))]
	body := tb.CSV(t.Chance(1, 3), t.Chance(1, 4))
	if t.Chance(1, 6) {
		body, _ = gen.MutateBytes(t, body, body)
	}
	fr := &faultyReader{t: t, data: body, errAt: -1, maxChunk: []int{1, 2, 3, 7, 64, 4096}[t.Choose(6)], zeroRead: t.Chance(1, 8)}
	faults := 0
	if t.Chance(1, 2) {
		fr.errAt = t.Choose(len(body) + 1)
		fr.err = []error{errInjected, io.ErrUnexpectedEOF, io.EOF}[t.Choose(3)]
		faults++
		t.Fault("reader-error-at-offset")
	}
	if t.Chance(1, 4) {
		fr.closeErr = errors.New("injected close error")
		faults++
		t.Fault("close-error")
	}
	if fr.maxChunk <= 3 {
		t.Fault("tiny-chunks")
		faults++
	}
	t.Logf("csv.New(%s): %d bytes, chunk<=%d, error at %d (%v), close error %v", tb.Name, len(body), fr.maxChunk, fr.errAt, fr.err, fr.closeErr != nil)
	rows := 0
	var closeErr, newErr error
	pv, stack := guard(func() {
		f, err := csv.New(constants.StaticFile(tb.Name), fr)
		if err != nil {
			newErr = err
			return
		}
		_ = f.Name()
		_ = f.HeaderContent()
		var req []csv.RequiredColumn
		var opt []csv.OptionalColumn
		for _, h := range tb.Header {
			req = append(req, f.RequiredColumn(h))
			opt = append(opt, f.OptionalColumn(h))
		}
		opt = append(opt, f.OptionalColumn("no_such_column"))
		if t.Chance(1, 4) {
			_ = f.RequiredColumn("no_such_required_column")
		}
		mustStop := len(f.MissingRequiredColumns()) > 0 // like the parsers: no row is read when a required column is missing
		_ = f.RowContent()
		_ = f.RowNumber()
		for !mustStop && f.NextRow() {
			rows++
			for _, c := range req[:len(req)] {
				_ = c.Read()
			}
			for _, c := range opt {
				_ = c.Read()
				_ = c.ReadOr("dflt")
			}
			_ = f.MissingRowKeys()
			_ = f.RowContent()
			_ = f.RowNumber()
			if rows > 100000 {
				panic("harness: csv loop does not terminate")
			}
		}
		// a parser whose required columns are missing reads no rows; optional columns stay readable
		if mustStop {
			for f.NextRow() {
				rows++
				for _, c := range opt {
					_ = c.Read()
				}
				_ = f.MissingRowKeys()
				_ = f.RowContent()
				if rows > 100000 {
					panic("harness: csv loop does not terminate")
				}
			}
		}
		_ = f.RowContent()
		_ = f.RowNumber()
		closeErr = f.Close()
	})
	if pv != nil {
		if msg := fmt.Sprint(pv); strings.HasPrefix(msg, "harness:") {
			return &sim.Violation{Class: "non-termination", Signature: "C05:non-termination:csv.NextRow", Detail: "NextRow kept returning true after 100000 rows on a " + fmt.Sprint(len(body)) + "-byte input"}
		}
		return crash("csv.File over a faulty reader", pv, stack)
	}
	if fr.errAt >= 0 && rows > 0 && fr.err == errInjected && fr.errAt < len(body) {
		t.Probe("csvseam-mid-file-error-after-rows")
		// an injected read error must surface (at New or at Close), never be swallowed
		if newErr == nil && closeErr == nil {
			return &sim.Violation{Class: "error-swallowed", Signature: "C05:read-error-swallowed", Detail: fmt.Sprintf("reader failed after %d bytes (%d rows were delivered) but neither New nor Close reported an error", fr.errAt, rows)}
		}
	}
	outcome := "A"
	if newErr != nil || closeErr != nil {
		outcome = "E"
	}
	t.Case = sim.HashStrings("csvseam", fmt.Sprint(sim.HashBytes(body)), fmt.Sprint(fr.errAt, fr.maxChunk, fr.closeErr != nil), outcome)
	t.Nontriv = faults > 0
	return nil
}

// ---------------------------------------------------------------------------------------
// journal sequences

func c05Journal(t *sim.T) *sim.Violation {
	spec := DrawExtSpec(t)
	if spec.Kind == 3 && t.Chance(2, 3) {
		spec.Kind = 2
	}
	n := t.Range(1, 12)
	src := &sliceSource{}
	var hashes []string
	faults := 0
	for i := 0; i < n; i++ {
		m, nf := c05BuildFeed(t, !t.Chance(1, 5))
		faults += nf
		b := gen.MarshalFeed(m)
		r, err, pv, stack := parseRT(b, spec.Fresh())
		if pv != nil {
			return crash("ParseRealtime("+spec.String()+")", pv, stack)
		}
		if err != nil || r == nil {
			continue
		}
		for k := range r.Trips {
			if len(r.Trips[k].ID.ID) < 6 {
				t.Probe("journal-short-trip-id")
			}
			for _, u := range r.Trips[k].StopTimeUpdates {
				if u.StopID == nil {
					t.Probe("journal-nil-stop-id")
				}
			}
		}
		src.items = append(src.items, r)
		hashes = append(hashes, fmt.Sprint(sim.HashBytes(b)))
	}
	a, b := allStart, allEnd
	switch t.Choose(4) {
	case 1:
		a, b = time.Unix(gen.Epoch-86400, 0), time.Unix(gen.Epoch+86400, 0)
	case 2:
		a, b = time.Unix(gen.Epoch+100, 0), time.Unix(gen.Epoch-100, 0)
	case 3:
		a, b = time.Time{}, time.Time{}
	}
	t.Logf("BuildJournal over %d successfully parsed feeds (%s)", len(src.items), spec)
	var j *journal.Journal
	pv, stack := guard(func() { j = journal.BuildJournal(src, a, b) })
	if pv != nil {
		return crash("BuildJournal", pv, stack)
	}
	if j != nil {
		pv, stack = guard(func() {
			_, _ = j.ExportToCsv()
			callStringers(reflect.ValueOf(j), map[uintptr]bool{}, 0)
		})
		if pv != nil {
			return crash("ExportToCsv", pv, stack)
		}
	}
	t.SimTime = float64(n) * 60
	t.Case = sim.HashStrings(append([]string{"journal"}, hashes...)...)
	t.Nontriv = faults > 0 && len(src.items) > 0
	return nil
}

// c05LongJournal: a history of one to two thousand small feeds from the simulated world, with hours-long gaps in
// the publisher's clock and trips that lose and regain their vehicle: periodic housekeeping inside BuildJournal
// (anything that happens every N-th feed, or after a trip has been idle for hours) only runs on such histories.
func c05LongJournal(t *sim.T) *sim.Violation {
	cfg := gen.DrawWorldCfg(t)
	n := t.Range(1000, 2200)
	cfg.Trips = t.Range(3, 10)
	cfg.Horizon = n
	cfg.ExplicitTime = true
	cfg.TickMax = t.Range(30, 300)
	if cfg.ClockFaults == 0 {
		cfg.ClockFaults = t.Range(1, 3)
	}
	if cfg.FlapAssign == 0 {
		cfg.FlapAssign = 1
	}
	if cfg.OmitRate == 0 {
		cfg.OmitRate = 1
	}
	spec := ExtSpec{Kind: 2, TZ: t.Choose(3)}
	if !cfg.Nyct {
		spec.Kind = 0
	}
	w := gen.NewWorld(t, cfg)
	src := &sliceSource{}
	o := spec.Fresh()
	for i := 0; i < n; i++ {
		r, err, pv, stack := parseRT(gen.MarshalFeed(w.Tick()), o)
		if pv != nil {
			return crash("ParseRealtime("+spec.String()+")", pv, stack)
		}
		if err == nil && r != nil {
			src.items = append(src.items, r)
		}
	}
	t.Probe("journal-long-history")
	t.Logf("BuildJournal over %d feeds of a simulated world (%s)", len(src.items), spec)
	var j *journal.Journal
	pv, stack := guard(func() { j = journal.BuildJournal(src, allStart, allEnd) })
	if pv != nil {
		return crash("BuildJournal", pv, stack)
	}
	if j != nil {
		if pv, stack = guard(func() { _, _ = j.ExportToCsv() }); pv != nil {
			return crash("ExportToCsv", pv, stack)
		}
	}
	t.SimTime = float64(n) * 60
	nt := 0
	if j != nil {
		nt = len(j.Trips)
	}
	t.Case = sim.HashStrings("long-journal", fmt.Sprint(n), fmt.Sprint(nt))
	t.Nontriv = true
	return nil
}
