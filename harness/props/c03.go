package props

import (
	"fmt"
	"os"
	"strconv"
	"strings"
	"time"

	"github.com/jamespfennell/gtfs"

	"verif/gen"
	"verif/sim"
)

// Engine refmon (C03): safety-invariant monitor (pointer membership, id agreement, forest) over
// seeded record-fault campaigns on the stored archive.

func init() {
	register(&Engine{
		Prop:  "C03",
		Name:  "refmon",
		Level: "exploration",
		Rule: "a case is one archive ParseStatic accepted (hash of its bytes); non-trivial = the result holds >= 2 resolved references of >= 3 kinds " +
			"(route->agency, stop->parent, transfer->stops, trip->route/service/shape, stop time->stop) and at least one top-level slice was re-allocated while being built (>= 5 elements) " +
			"or a reference fault (dangling, duplicate, cyclic, blank id, rejected row) was injected",
		Run: runC03,
		Budget: func(tier string) (int, time.Duration) {
			if tier == "thorough" {
				return 3000000, 20 * time.Minute
			}
			return 300000, 40 * time.Second
		},
		Real:  []string{"gtfs.ParseStatic (both option values)", "Stop.Root"},
		Stubs: []string{"table model of a static feed", "record-fault injector (reference-heavy subset)"},
		Assume: []string{
			"id agreement is stated existentially (some row of the referring file with the entity's id names the referenced id), so duplicate ids cannot cause a false alarm",
			"only record-level faults are used here, so the table model describes exactly what is stored in the archive",
		},
		MandatoryProbes: []string{"fault:parent-cycle", "fault:dangling", "fault:duplicate", "slice-regrown", "accepted-with-fault"},
	})
}

// staticInvariants checks referential closure and the forest property. tables gives, per file, the
// rows as stored (header + rows) for the id-agreement clause; nil skips that clause.
func staticInvariants(s *gtfs.Static, f *gen.Feed) (sig, detail string, kinds int, refs int) {
	agIdx := map[*gtfs.Agency]int{}
	for i := range s.Agencies {
		agIdx[&s.Agencies[i]] = i
	}
	stIdx := map[*gtfs.Stop]int{}
	for i := range s.Stops {
		stIdx[&s.Stops[i]] = i
	}
	rtIdx := map[*gtfs.Route]int{}
	for i := range s.Routes {
		rtIdx[&s.Routes[i]] = i
	}
	svIdx := map[*gtfs.Service]int{}
	for i := range s.Services {
		svIdx[&s.Services[i]] = i
	}
	shIdx := map[*gtfs.Shape]int{}
	for i := range s.Shapes {
		shIdx[&s.Shapes[i]] = i
	}
	kindSeen := map[string]bool{}
	// row lookup: exists a row with all given (column -> value) pairs; a pair whose column is absent is
	// satisfied only by the empty value
	// Indexed per (file, column tuple) so that large feeds stay linear.
	index := map[string]map[string]bool{}
	rowWith := func(file string, pairs ...string) bool {
		if f == nil {
			return true
		}
		sim.Beat()
		var cols, vals []string
		for i := 0; i+1 < len(pairs); i += 2 {
			cols = append(cols, pairs[i])
			vals = append(vals, pairs[i+1])
		}
		ik := file + "|" + strings.Join(cols, "|")
		set, ok := index[ik]
		if !ok {
			set = map[string]bool{}
			// with duplicate member names the parser keeps the last one; accept a match in any of them
			for _, tb := range f.Tables {
				if tb.Name != file {
					continue
				}
				// the parser uses the LAST column with a given name (header map)
				ci := make([]int, len(cols))
				for k, cn := range cols {
					ci[k] = -1
					for h := len(tb.Header) - 1; h >= 0; h-- {
						if tb.Header[h] == cn {
							ci[k] = h
							break
						}
					}
				}
				for _, r := range tb.Rows {
					rv := make([]string, len(cols))
					for k, c := range ci {
						if c >= 0 && c < len(r) {
							rv[k] = r[c]
						}
					}
					set[strings.Join(rv, "\x00")] = true
				}
			}
			index[ik] = set
		}
		return set[strings.Join(vals, "\x00")]
	}
	for i := range s.Routes {
		r := &s.Routes[i]
		if r.Agency == nil {
			return "C03:nil-required:Route.Agency", fmt.Sprintf("route %q has no agency", r.Id), 0, 0
		}
		if _, ok := agIdx[r.Agency]; !ok {
			return "C03:not-own-element:Route.Agency", fmt.Sprintf("route %q: Agency is not an element of Static.Agencies", r.Id), 0, 0
		}
		if !rowWith("routes.txt", "route_id", r.Id, "agency_id", r.Agency.Id) && !(len(s.Agencies) == 1 && rowWith("routes.txt", "route_id", r.Id, "agency_id", "")) {
			return "C03:wrong-target:Route.Agency", fmt.Sprintf("route %q is bound to agency %q but no routes.txt row with that route_id names it", r.Id, r.Agency.Id), 0, 0
		}
		kindSeen["route-agency"] = true
		refs++
	}
	for i := range s.Stops {
		st := &s.Stops[i]
		if st.Parent == nil {
			continue
		}
		if _, ok := stIdx[st.Parent]; !ok {
			return "C03:not-own-element:Stop.Parent", fmt.Sprintf("stop %q: Parent is not an element of Static.Stops", st.Id), 0, 0
		}
		if !rowWith("stops.txt", "stop_id", st.Id, "parent_station", st.Parent.Id) {
			return "C03:wrong-target:Stop.Parent", fmt.Sprintf("stop %q (index %d) has parent %q but no stops.txt row with that stop_id names it", st.Id, i, st.Parent.Id), 0, 0
		}
		kindSeen["stop-parent"] = true
		refs++
	}
	for i := range s.Transfers {
		tr := &s.Transfers[i]
		if tr.From == nil || tr.To == nil {
			return "C03:nil-required:Transfer", fmt.Sprintf("transfer %d has a nil endpoint", i), 0, 0
		}
		_, ok1 := stIdx[tr.From]
		_, ok2 := stIdx[tr.To]
		if !ok1 || !ok2 {
			return "C03:not-own-element:Transfer", fmt.Sprintf("transfer %d: endpoint is not an element of Static.Stops", i), 0, 0
		}
		if !rowWith("transfers.txt", "from_stop_id", tr.From.Id, "to_stop_id", tr.To.Id) {
			return "C03:wrong-target:Transfer", fmt.Sprintf("transfer %d binds %q -> %q but no transfers.txt row names that pair", i, tr.From.Id, tr.To.Id), 0, 0
		}
		kindSeen["transfer"] = true
		refs += 2
	}
	for i := range s.Trips {
		tp := &s.Trips[i]
		if tp.Route == nil {
			return "C03:nil-required:Trip.Route", fmt.Sprintf("trip %q has no route", tp.ID), 0, 0
		}
		if tp.Service == nil {
			return "C03:nil-required:Trip.Service", fmt.Sprintf("trip %q has no service", tp.ID), 0, 0
		}
		if _, ok := rtIdx[tp.Route]; !ok {
			return "C03:not-own-element:Trip.Route", fmt.Sprintf("trip %q: Route is not an element of Static.Routes", tp.ID), 0, 0
		}
		if _, ok := svIdx[tp.Service]; !ok {
			return "C03:not-own-element:Trip.Service", fmt.Sprintf("trip %q: Service is not an element of Static.Services", tp.ID), 0, 0
		}
		pairs := []string{"trip_id", tp.ID, "route_id", tp.Route.Id, "service_id", tp.Service.Id}
		if tp.Shape != nil {
			if _, ok := shIdx[tp.Shape]; !ok {
				return "C03:not-own-element:Trip.Shape", fmt.Sprintf("trip %q: Shape is not an element of Static.Shapes", tp.ID), 0, 0
			}
			pairs = append(pairs, "shape_id", tp.Shape.ID)
			kindSeen["trip-shape"] = true
			refs++
		}
		if !rowWith("trips.txt", pairs...) {
			return "C03:wrong-target:Trip", fmt.Sprintf("trip %q is bound to %v but no trips.txt row says so", tp.ID, pairs), 0, 0
		}
		kindSeen["trip-route-service"] = true
		refs += 2
		for k := range tp.StopTimes {
			stt := &tp.StopTimes[k]
			if stt.Stop == nil {
				return "C03:nil-required:StopTime.Stop", fmt.Sprintf("trip %q stop time %d has no stop", tp.ID, k), 0, 0
			}
			if _, ok := stIdx[stt.Stop]; !ok {
				return "C03:not-own-element:StopTime.Stop", fmt.Sprintf("trip %q stop time %d: Stop is not an element of Static.Stops", tp.ID, k), 0, 0
			}
			if !rowWith("stop_times.txt", "trip_id", tp.ID, "stop_id", stt.Stop.Id) {
				return "C03:wrong-target:StopTime", fmt.Sprintf("trip %q has a stop time at %q but no stop_times.txt row names that pair", tp.ID, stt.Stop.Id), 0, 0
			}
			kindSeen["stoptime-stop"] = true
			refs++
		}
	}
	// forest
	for i := range s.Stops {
		p := &s.Stops[i]
		for n := 0; p != nil; n++ {
			if n > len(s.Stops) {
				return "C03:parent-cycle", fmt.Sprintf("stop %q (index %d) is its own ancestor: Root() would not terminate", s.Stops[i].Id, i), 0, 0
			}
			p = p.Parent
		}
	}
	return "", "", len(kindSeen), refs
}

// c03GiantOdds: one thorough run in this many has the giant stops table (VERIF_C03_GIANT_ODDS overrides it for
// sensitivity experiments; part of the batch configuration like the seed).
var c03GiantOdds = func() int {
	if n, err := strconv.Atoi(os.Getenv("VERIF_C03_GIANT_ODDS")); err == nil && n > 0 {
		return n
	}
	return 20000
}()

func runC03(t *sim.T, tier string) *sim.Violation {
	cfg := gen.DrawStaticCfg(t, true)
	// thorough tier, rarely: more than 2^16 stops (algorithms that switch strategy for large feeds)
	giant := tier == "thorough" && t.Chance(1, c03GiantOdds)
	if giant {
		cfg.Stops = 66000 + t.Choose(8000)
		cfg.Quoting = false
		t.Probe("giant-stops-table")
	}
	m := gen.GenStatic(t, cfg)
	nf := t.Weighted(2, 4, 3, 2, 1)
	if giant {
		nf = t.Range(4, 8)
	}
	injected := false
	var descs []string
	for i := 0; i < nf; i++ {
		d := gen.MutateStatic(t, m, gen.FocusRefs)
		if d != "" {
			t.Logf("fault: %s", d)
			descs = append(descs, d)
			injected = true
			switch {
			case strings.Contains(d, "cycle") || strings.Contains(d, "own parent") || strings.Contains(d, "re-parented"):
				t.Probe("fault:parent-cycle")
				t.Fault("parent-cycle-or-reparent")
			case strings.Contains(d, "dangling"):
				t.Probe("fault:dangling")
				t.Fault("dangling-reference")
			case strings.Contains(d, "duplicate") || strings.Contains(d, "takes the id"):
				t.Probe("fault:duplicate")
				t.Fault("duplicate-id")
			case strings.Contains(d, "grown"):
				t.Fault("table-grown")
			case strings.Contains(d, "blank"):
				t.Fault("blank-id-or-reference")
			default:
				t.Fault("other-record-fault")
			}
		}
	}
	z := m.Feed.Zip(gen.DrawZipOpts(t, len(m.Feed.Tables)))
	inherit := t.Chance(1, 2)
	t.Logf("feed: %s inherit=%v", m.Summary(), inherit)
	s, err, pv, _ := parseST(z, gtfs.ParseStaticOptions{InheritWheelchairBoarding: inherit})
	if pv != nil {
		t.Probe("panic-skip") // C05's business
		return nil
	}
	if err != nil || s == nil {
		t.Probe("rejected-archive")
		return nil
	}
	if injected {
		t.Probe("accepted-with-fault")
	}
	sig, detail, kinds, refs := staticInvariants(s, m.Feed)
	if sig != "" {
		if sig == "C03:parent-cycle" && t.Confirm {
			// confirm by actually calling Root under a timeout
			done := make(chan bool, 1)
			go func() {
				for i := range s.Stops {
					s.Stops[i].Root()
				}
				done <- true
			}()
			select {
			case <-done:
				detail += " [Root() returned in the confirmation run?!]"
			case <-time.After(3 * time.Second):
				detail += " [confirmed: Root() did not return within 3 s]"
			}
		}
		return &sim.Violation{Class: "invariant", Signature: sig, Detail: detail + " (faults: " + strings.Join(descs, "; ") + ")"}
	}
	regrown := len(s.Stops) >= 5 || len(s.Routes) >= 5 || len(s.Trips) >= 5 || len(s.Agencies) >= 5 || len(s.Services) >= 5
	if regrown {
		t.Probe("slice-regrown")
	}
	t.Case = sim.HashBytes(z)
	t.Nontriv = refs >= 2 && kinds >= 3 && (regrown || injected)
	return nil
}
