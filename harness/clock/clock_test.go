//go:build clocksim

// Package clock is the simulated-clock sub-check of C06, built as a test binary with the newer Go toolchain
// because it needs testing/synctest: inside a synctest bubble time.Now() is a fake clock that starts at
// 2000-01-01 and moves only when the bubble sleeps. Every input is parsed once under the real clock and then
// under several simulated instants (long before the feed's own timestamps, right around them, decades after);
// the results must be identical: ParseRealtime and ParseStatic are functions of content and options, not of
// the moment they run.
//
// Protocol (stdout, read by cmd/verif): "n <runs> <parses>" once, "v <run> <runseed> <signature>\t<detail>" per
// violation. Environment: VERIF_CLOCK_SEED, VERIF_CLOCK_RUNS, VERIF_CLOCK_LO (first run index), VERIF_CLOCK_ONLY (a single run index: replay).
package clock

import (
	"fmt"
	"os"
	"strconv"
	"strings"
	"testing"
	"testing/synctest"
	"time"

	"github.com/jamespfennell/gtfs"

	"verif/gen"
	"verif/props"
	"verif/sim"
)

const bubbleStart = 946684800 // 2000-01-01T00:00:00Z, where every synctest bubble's clock starts

func envInt(name string, def int) int {
	if n, err := strconv.Atoi(os.Getenv(name)); err == nil {
		return n
	}
	return def
}

type input struct {
	static bool
	b      []byte
	spec   props.ExtSpec
	inh    bool
	desc   string
}

func drawInput(t *sim.T) input {
	if t.Chance(1, 4) {
		m := gen.GenStatic(t, gen.DrawStaticCfg(t, false))
		if t.Chance(1, 3) {
			gen.MutateStatic(t, m, gen.FocusAll)
		}
		return input{static: true, b: m.Feed.Zip(gen.DrawZipOpts(t, len(m.Feed.Tables))), inh: t.Chance(1, 2), desc: "static " + m.Summary()}
	}
	spec := props.DrawExtSpec(t)
	if t.Chance(1, 2) {
		// a snapshot of the simulated subway: unassigned trips whose first stop lies in the feed's past are what
		// the staleness filter of the nycttrips extension is about
		cfg := gen.DrawWorldCfg(t)
		cfg.Nyct = true
		w := gen.NewWorld(t, cfg)
		var msg = w.Tick()
		for k := t.Choose(8); k > 0; k-- {
			msg = w.Tick()
		}
		spec.Kind = 2
		spec.Trips.FilterStaleUnassignedTrips = !t.Chance(1, 4)
		return input{b: gen.MarshalFeed(msg), spec: spec, desc: "world snapshot, " + spec.String()}
	}
	return input{b: gen.MarshalFeed(gen.RichFeed(t)), spec: spec, desc: "rich feed, " + spec.String()}
}

func parse(in input) (dump string) {
	defer func() {
		if r := recover(); r != nil {
			dump = fmt.Sprintf("panic: %v", r) // C05's business; still must not depend on the clock
		}
	}()
	if in.static {
		s, err := gtfs.ParseStatic(append([]byte(nil), in.b...), gtfs.ParseStaticOptions{InheritWheelchairBoarding: in.inh})
		return sim.Dump(s, props.SortNorm) + fmt.Sprintf("err=%v", err)
	}
	r, err := gtfs.ParseRealtime(append([]byte(nil), in.b...), in.spec.Fresh())
	return sim.Dump(r, props.SortNorm) + fmt.Sprintf("err=%v", err)
}

func TestClock(t *testing.T) {
	seed := uint64(envInt("VERIF_CLOCK_SEED", 1))
	runs := envInt("VERIF_CLOCK_RUNS", 200)
	only := envInt("VERIF_CLOCK_ONLY", -1)
	lo := envInt("VERIF_CLOCK_LO", 0)
	out := os.NewFile(uintptr(props.DupStdout()), "report")
	props.Silence()
	parses := 0
	done := 0
	for i := lo; i < runs; i++ {
		if only >= 0 && i != only {
			continue
		}
		st := sim.NewT(sim.RunSeed(seed, "clock", i))
		in := drawInput(st)
		// simulated instants: the bubble's own start (24 years before the feeds), one to three instants within
		// hours of the feeds' timestamps, one decades later
		instants := []int64{bubbleStart, int64(gen.Epoch) - 7200 + int64(st.Choose(14400)), int64(gen.Epoch) + int64(st.Choose(600)) - 300, int64(gen.Epoch) + 86400*int64(1+st.Choose(20000))}
		want := parse(in)
		parses++
		for _, at := range instants {
			var got string
			synctest.Test(t, func(t *testing.T) {
				time.Sleep(time.Duration(at-bubbleStart) * time.Second)
				got = parse(in)
			})
			parses++
			if got != want {
				sig := "C06:clock-dependence:" + sim.DiffPath(want, got)
				det := fmt.Sprintf("%s: parsed under the real clock and under a simulated clock at %s the results differ: %s", in.desc, time.Unix(at, 0).UTC().Format(time.RFC3339), sim.FirstDiff(want, got))
				fmt.Fprintf(out, "v %d %d %s\t%s\n", i, sim.RunSeed(seed, "clock", i), sig, strings.ReplaceAll(det, "\n", " "))
				break
			}
		}
		done++
	}
	fmt.Fprintf(out, "n %d %d\n", done, parses)
}
