//go:build race

package sim

import "runtime"

const RaceEnabled = true

func raceDisable() { runtime.RaceDisable() }
func raceEnable()  { runtime.RaceEnable() }
