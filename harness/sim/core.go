// Package sim is the simulator core shared by every engine: one seeded PRNG, the
// choice trace that is the only source of nondeterminism in a run, the event log,
// probes and fault counters, violation records, and the trace shrinker.
package sim

import (
	"fmt"
	"hash/fnv"
	"os"
	"sort"
	"strconv"
	"strings"
	"sync/atomic"
)

// ---------------------------------------------------------------------------------------
// PRNG: splitmix64 seeding + xoshiro256**. Local, no globals, no clock.

func splitmix64(x *uint64) uint64 {
	*x += 0x9e3779b97f4a7c15
	z := *x
	z = (z ^ (z >> 30)) * 0xbf58476d1ce4e5b9
	z = (z ^ (z >> 27)) * 0x94d049bb133111eb
	return z ^ (z >> 31)
}

type rng struct{ s [4]uint64 }

func newRng(seed uint64) *rng {
	r := &rng{}
	x := seed
	for i := range r.s {
		r.s[i] = splitmix64(&x)
	}
	return r
}

func rotl(x uint64, k uint) uint64 { return (x << k) | (x >> (64 - k)) }

func (r *rng) next() uint64 {
	res := rotl(r.s[1]*5, 7) * 9
	t := r.s[1] << 17
	r.s[2] ^= r.s[0]
	r.s[3] ^= r.s[1]
	r.s[1] ^= r.s[2]
	r.s[0] ^= r.s[3]
	r.s[2] ^= t
	r.s[3] = rotl(r.s[3], 45)
	return res
}

// RunSeed derives the seed of run i of an engine from the batch seed.
func RunSeed(batch uint64, engine string, i int) uint64 {
	h := fnv.New64a()
	h.Write([]byte(engine))
	x := batch*0x9e3779b97f4a7c15 ^ h.Sum64() ^ (uint64(i)+1)*0xd1342543de82ef95
	return splitmix64(&x)
}

// ---------------------------------------------------------------------------------------
// T is the context of one simulated run.

type Violation struct {
	Class     string `json:"class"`
	Signature string `json:"signature"`
	Detail    string `json:"detail"`
}

func (v *Violation) String() string { return v.Signature + ": " + v.Detail }

type T struct {
	r       *rng  // nil when replaying
	replay  []int // choices to feed back
	pos     int
	Trace   []int
	Events  []string
	Probes  map[string]int
	Faults  map[string]int
	Case    uint64 // hash identifying the case explored by this run (engine-defined)
	Nontriv bool   // engine-defined non-triviality of this run
	SimTime float64
	Extra   map[string]int // engine-defined additive counters (evaluations of sub-cases etc)
	Cases   []uint64       // additional distinct non-trivial case hashes (for enumerating engines)
	maxEv   int
	Sample  any    // optional structured sample for evidence
	Digest  string // optional digest of everything the SUT returned in this run (C06 cross-process check)
	// Replaying tells engines that this run is a replay of a recorded trace
	// (they may spend more on confirmation work).
	Replaying bool
	// Confirm: this is the final replay of a (minimised) trace; engines may spend more on confirmation.
	Confirm bool
}

func NewT(seed uint64) *T {
	return &T{r: newRng(seed), Probes: map[string]int{}, Faults: map[string]int{}, Extra: map[string]int{}, maxEv: 400}
}

func NewReplayT(choices []int) *T {
	return &T{replay: choices, Probes: map[string]int{}, Faults: map[string]int{}, Extra: map[string]int{}, maxEv: 400, Replaying: true, Confirm: true}
}

// MaxChoices bounds the number of decisions of one run; exceeding it aborts the run
// (a shrink candidate is then simply rejected).
const MaxChoices = 8_000_000

type BudgetExceeded struct{}

// Heartbeat: harness code ticks this counter whenever it makes progress (every decision, every dump,
// entry and exit of every guarded call into the library). The worker's watchdog reports non-termination
// only when the counter stands still, i.e. when a single call into the library does not come back - never
// because the harness itself has a lot of work to do in one run.
var beats atomic.Uint64

func Beat()         { beats.Add(1) }
func Beats() uint64 { return beats.Load() }

// Choose returns a value in [0,n). 0 is always the simplest alternative.
func (t *T) Choose(n int) int {
	beats.Add(1)
	if n <= 1 {
		return 0
	}
	var v int
	if t.r != nil {
		v = int(t.r.next() % uint64(n))
	} else if t.pos < len(t.replay) {
		v = t.replay[t.pos]
		if v < 0 {
			v = 0
		}
		v %= n
	}
	t.pos++
	if t.pos > MaxChoices {
		panic(BudgetExceeded{})
	}
	t.Trace = append(t.Trace, v)
	return v
}

// Range returns a value in [lo,hi].
func (t *T) Range(lo, hi int) int {
	if hi <= lo {
		return lo
	}
	return lo + t.Choose(hi-lo+1)
}

// Chance is true with probability num/den; false is the simple alternative.
func (t *T) Chance(num, den int) bool {
	if num <= 0 {
		return false
	}
	return t.Choose(den) >= den-num
}

// Pick chooses an index weighted by w (w[0] should be the simplest alternative).
func (t *T) Weighted(w ...int) int {
	tot := 0
	for _, x := range w {
		tot += x
	}
	v := t.Choose(tot)
	for i, x := range w {
		if v < x {
			return i
		}
		v -= x
	}
	return len(w) - 1
}

func init() {
	if v := os.Getenv("VERIF_MAXEV"); v != "" {
		if n, err := strconv.Atoi(v); err == nil {
			defaultMaxEv = n
		}
	}
}

var defaultMaxEv = 400

func (t *T) Logf(format string, a ...any) {
	if t.maxEv == 400 && defaultMaxEv != 400 {
		t.maxEv = defaultMaxEv
	}
	if len(t.Events) < t.maxEv {
		t.Events = append(t.Events, fmt.Sprintf(format, a...))
	} else if len(t.Events) == t.maxEv {
		t.Events = append(t.Events, "... (event log truncated)")
	}
}

func (t *T) Probe(name string)         { t.Probes[name]++ }
func (t *T) ProbeN(name string, n int) { t.Probes[name] += n }
func (t *T) Fault(kind string)         { t.Faults[kind]++ }

// HashStrings is the helper engines use to build case hashes.
func HashStrings(parts ...string) uint64 {
	h := fnv.New64a()
	for _, p := range parts {
		h.Write([]byte(p))
		h.Write([]byte{0})
	}
	return h.Sum64()
}

func HashBytes(b []byte) uint64 {
	h := fnv.New64a()
	h.Write(b)
	return h.Sum64()
}

// SortedKeys returns the keys of m sorted (harness code never ranges over a map in a decision path).
func SortedKeys[V any](m map[string]V) []string {
	ks := make([]string, 0, len(m))
	for k := range m {
		ks = append(ks, k)
	}
	sort.Strings(ks)
	return ks
}

// ---------------------------------------------------------------------------------------
// Shrinking. exec runs a candidate trace and returns the violation signature ("" if none) plus
// the normalised trace actually consumed.

type ExecFunc func(choices []int) (sig string, used []int)

type ShrinkStats struct{ Candidates, Accepted int }

// Shrink minimises choices while the same signature recurs.
func Shrink(choices []int, sig string, exec ExecFunc, maxCandidates int) ([]int, ShrinkStats) {
	var st ShrinkStats
	cur := append([]int(nil), choices...)
	try := func(c []int) bool {
		if st.Candidates >= maxCandidates {
			return false
		}
		st.Candidates++
		s, used := exec(c)
		if s == sig {
			st.Accepted++
			// keep only what was consumed
			if len(used) < len(c) {
				c = c[:len(used)]
			}
			cur = append(cur[:0:0], c...)
			return true
		}
		return false
	}
	trim := func() {
		for len(cur) > 0 && cur[len(cur)-1] == 0 {
			cur = cur[:len(cur)-1]
		}
	}
	improved := true
	for improved && st.Candidates < maxCandidates {
		improved = false
		trim()
		// 1. delete blocks (delta debugging)
		for size := len(cur) / 2; size >= 1; size /= 2 {
			for start := 0; start+size <= len(cur); {
				c := append(append([]int(nil), cur[:start]...), cur[start+size:]...)
				if try(c) {
					improved = true
				} else {
					start += size
				}
				if st.Candidates >= maxCandidates {
					break
				}
			}
		}
		// 2. zero blocks
		for size := len(cur) / 2; size >= 1; size /= 2 {
			for start := 0; start+size <= len(cur); start += size {
				allZero := true
				for _, v := range cur[start : start+size] {
					if v != 0 {
						allZero = false
						break
					}
				}
				if allZero {
					continue
				}
				c := append([]int(nil), cur...)
				for i := start; i < start+size; i++ {
					c[i] = 0
				}
				if try(c) {
					improved = true
				}
				if st.Candidates >= maxCandidates {
					break
				}
			}
		}
		// 3. lower single values
		for i := 0; i < len(cur) && st.Candidates < maxCandidates; i++ {
			if cur[i] == 0 {
				continue
			}
			lo, hi := 0, cur[i] // find smallest value in [lo,hi) that still fails (heuristic bisection)
			for lo < hi && st.Candidates < maxCandidates {
				mid := (lo + hi) / 2
				if i >= len(cur) {
					break
				}
				c := append([]int(nil), cur...)
				c[i] = mid
				if try(c) {
					improved = true
					hi = mid
				} else {
					lo = mid + 1
				}
			}
		}
	}
	trim()
	return cur, st
}

// FrameSig reduces a Go stack trace (as text) to the innermost frame inside the given
// module path prefix, e.g. "gtfs.parseScheduledStopTimes". Line numbers are dropped on purpose.
func FrameSig(stack string, prefix string) string {
	for _, line := range strings.Split(stack, "\n") {
		line = strings.TrimSpace(line)
		if !strings.HasPrefix(line, prefix) {
			continue
		}
		fn := strings.TrimPrefix(line, prefix)
		fn = strings.TrimPrefix(fn, "/")
		if i := strings.LastIndex(fn, "("); i >= 0 {
			fn = fn[:i]
		}
		// drop closure numbering noise like .func1.2 -> .func
		return fn
	}
	return "unknown"
}
