package sim

import (
	"fmt"
	"os"
	"runtime"
	"strings"
	"sync"
	"sync/atomic"
	"time"
)

// Cooperative scheduler: tasks are real goroutines of which exactly one is runnable at a time. A task
// parks by sending on the scheduler's channel and blocking on its own resume channel; the scheduler
// picks the next task with Choose. Every park/resume is bracketed by runtime.RaceDisable/RaceEnable
// so that ThreadSanitizer ignores the scheduler's happens-before edges while still tracking every
// memory access: two tasks' accesses are ordered only by synchronisation the library performs.
//
// Harness state reachable from task goroutines is channel/atomic only.

type Task struct {
	goid   atomic.Int64 // id of the goroutine running this task (set by the task itself when it starts)
	ID     int
	Name   string
	resume chan struct{}
	fn     func()
	done   bool
	// blocked: the task did not come back to the scheduler within the grace period (it is blocked on a
	// real lock held by a parked task). It re-joins when it parks again.
	blocked bool
	yieldN  uint32
}

type parkMsg struct {
	task *Task
	site string
	done bool
}

type Sched struct {
	t            *T
	parkCh       chan parkMsg
	tasks        []*Task
	cur          atomic.Pointer[Task]
	active       map[string]bool // read-only after Start
	allOn        bool
	Steps        []string // schedule: "task@site"
	wg           sync.WaitGroup
	Uncontrolled bool
	MaxSteps     int
	Stride       uint32 // > 1: tasks park at every Stride-th active yield point only
	// Activation of the yield sites inserted by cmd/instrument: a site is active in this run iff
	// hash(site)^AutoSalt, reduced to 16 bits, is below the threshold (65536 = all, 0 = none).
	AutoSalt       uint32
	AutoFuncThresh uint32
	AutoSyncThresh uint32
	Switches       int // context switches that happened at a site inside a parse
}

func NewSched(t *T) *Sched {
	return &Sched{t: t, parkCh: make(chan parkMsg), active: map[string]bool{}, MaxSteps: 20000}
}

// SetSites decides which yield sites are active in this run (buggify-style subset).
func (s *Sched) SetSites(sites map[string]bool, all bool) { s.active, s.allOn = sites, all }

func (s *Sched) Go(name string, fn func()) *Task {
	tk := &Task{ID: len(s.tasks), Name: name, resume: make(chan struct{}), fn: fn}
	s.tasks = append(s.tasks, tk)
	return tk
}

// Yield is the hook body: called from library code (through verifhook) and from harness proxies.
func (s *Sched) Yield(site string) {
	if s.cur.Load() == nil {
		return // no scheduled phase is running (reference calls)
	}
	// is this site active in this run? (cheap checks first: most calls end here)
	if strings.HasPrefix(site, "auto:") {
		// sites inserted by cmd/instrument: a per-run pseudo-random subset, denser for synchronisation sites
		th := s.AutoFuncThresh
		if strings.HasPrefix(site, "auto:sync:") {
			th = s.AutoSyncThresh
		}
		if th == 0 {
			return
		}
		h := uint32(2166136261)
		for i := 0; i < len(site); i++ {
			h = (h ^ uint32(site[i])) * 16777619
		}
		h ^= s.AutoSalt
		h ^= h >> 15
		h *= 2246822519
		h ^= h >> 13
		if h&0xffff >= th {
			return
		}
		// A function reached from a sort comparator is called a number of times that depends on the order
		// in which the library filled the slice (often Go map order): yielding there would make the
		// schedule differ from process to process for the same choices.
		if inSortCallback() {
			return
		}
	} else if !s.allOn && !s.active[site] {
		return
	}
	// Identify the calling task by its goroutine, not by "the task released last": if a task was ever
	// considered blocked and later runs by itself, two tasks run at once and s.cur names only one.
	g := curGoid()
	var tk *Task
	for _, c := range s.tasks {
		if c.goid.Load() == g {
			tk = c
			break
		}
	}
	if tk == nil {
		return // not a task goroutine
	}
	if s.Stride > 1 {
		// coarse schedules: a task parks at every Stride-th of its active yield points only, so that the step budget
		// spans runs of hundreds of thousands of yields and tasks drift far apart (yieldN belongs to the task's goroutine)
		tk.yieldN++
		if tk.yieldN%s.Stride != 0 {
			return
		}
	}
	raceDisable()
	s.parkCh <- parkMsg{task: tk, site: site}
	<-tk.resume
	raceEnable()
}

// Run executes all tasks to completion under the seeded schedule.
func (s *Sched) Run() {
	for _, tk := range s.tasks {
		tk := tk
		s.wg.Add(1)
		go func() {
			tk.goid.Store(curGoid())
			raceDisable()
			<-tk.resume
			raceEnable()
			tk.fn()
			s.wg.Done() // real release edge towards the checker only
			raceDisable()
			s.parkCh <- parkMsg{task: tk, done: true}
			raceEnable()
		}()
	}
	live := len(s.tasks)
	last := -1
	for live > 0 {
		var runnable []*Task
		for _, tk := range s.tasks {
			if !tk.done && !tk.blocked {
				runnable = append(runnable, tk)
			}
		}
		if len(runnable) == 0 {
			// everything alive is blocked on a lock nobody can release: wait for any message
			m, ok := s.recv(90 * time.Second)
			if !ok {
				panic("harness: scheduler deadlock (all live tasks blocked)")
			}
			s.handle(m, &live)
			continue
		}
		var tk *Task
		if len(s.Steps) >= s.MaxSteps {
			tk = runnable[0] // budget exhausted: run to completion without further choices
		} else {
			tk = runnable[s.t.Choose(len(runnable))]
		}
		if last >= 0 && last != tk.ID {
			s.Switches++
		}
		last = tk.ID
		s.cur.Store(tk)
		raceDisable()
		tk.resume <- struct{}{}
		raceEnable()
		waited := time.Duration(0)
		for {
			m, ok := s.recv(pollEvery)
			if !ok {
				waited += pollEvery
				// the released task neither parked nor finished yet: is it blocked on synchronisation
				// (a real lock held by a parked task), or just still running?
				if goroutineBlocked(tk.goid.Load()) {
					tk.blocked = true
					s.Uncontrolled = true
					s.Steps = append(s.Steps, fmt.Sprintf("%d@<blocked>", tk.ID))
					break
				}
				if waited > 10*time.Minute {
					panic("harness: a task ran for 10 minutes without reaching a yield point")
				}
				continue
			}
			s.handle(m, &live)
			if m.task == tk {
				break
			}
			// a message from a task that had been blocked and has now reached a yield point by itself
		}
	}
	s.cur.Store(nil)
	s.wg.Wait()
}

// recv waits for the next message. Only channel operations happen inside the ignore region: anything
// else the scheduler goroutine did there under a lock (timer setup, sync.Map, ...) would look
// unsynchronised to ThreadSanitizer.
func (s *Sched) recv(d time.Duration) (parkMsg, bool) {
	timer := time.NewTimer(d)
	var m parkMsg
	ok := false
	raceDisable()
	select {
	case m = <-s.parkCh:
		ok = true
	case <-timer.C:
	}
	raceEnable()
	timer.Stop()
	return m, ok
}

func (s *Sched) handle(m parkMsg, live *int) {
	if m.task.blocked {
		m.task.blocked = false
	}
	if m.done {
		m.task.done = true
		*live--
		if len(s.Steps) < s.MaxSteps {
			s.Steps = append(s.Steps, fmt.Sprintf("%d@done", m.task.ID))
		}
		return
	}
	if len(s.Steps) < s.MaxSteps {
		s.Steps = append(s.Steps, fmt.Sprintf("%d@%s", m.task.ID, m.site))
	}
}

// pollEvery: how often the scheduler looks at the state of a released task that has not reported back.
const pollEvery = 25 * time.Millisecond

// goroutineBlocked reports whether the goroutine with the given id is waiting on synchronisation
// (mutex, semaphore, channel, condition variable), as opposed to running or runnable. It reads the
// runtime's own goroutine states from a full stack dump; it is only consulted when a released task
// has not reported back for pollEvery, so a slow machine cannot make a running task look blocked.
func goroutineBlocked(goid int64) bool {
	buf := make([]byte, 1<<18)
	for {
		n := runtime.Stack(buf, true)
		if n < len(buf) {
			buf = buf[:n]
			break
		}
		buf = make([]byte, 2*len(buf))
	}
	head := fmt.Sprintf("goroutine %d [", goid)
	i := strings.Index(string(buf), head)
	if i < 0 {
		return false
	}
	rest := string(buf[i+len(head):])
	j := strings.IndexAny(rest, "],")
	if j < 0 {
		return false
	}
	state := rest[:j]
	// a task that is handing its park message to the scheduler (or waiting for its resume) is in a
	// channel operation of the scheduler's own: that is not "blocked on the library's synchronisation"
	if k := strings.Index(rest, "\n\n"); k > 0 {
		rest = rest[:k]
	}
	for _, line := range strings.Split(rest, "\n")[1:] {
		if strings.HasPrefix(line, "\t") || line == "" {
			continue
		}
		if strings.HasPrefix(line, "runtime.") || strings.HasPrefix(line, "sync.") || strings.HasPrefix(line, "internal/") || strings.HasPrefix(line, "sync/atomic.") {
			continue
		}
		if strings.HasPrefix(line, "verif/sim.(*Sched).") {
			return false
		}
		break
	}
	switch {
	case strings.HasPrefix(state, "sync."), state == "semacquire", state == "chan receive", state == "chan send", state == "select",
		strings.HasPrefix(state, "chan receive"), strings.HasPrefix(state, "chan send"), strings.HasPrefix(state, "select"):
		return true
	}
	return false
}

// inSortCallback reports whether the caller is running underneath package sort or slices.
func inSortCallback() bool {
	var pcs [32]uintptr
	n := runtime.Callers(3, pcs[:])
	frames := runtime.CallersFrames(pcs[:n])
	for {
		f, more := frames.Next()
		if strings.HasPrefix(f.Function, "sort.") || strings.HasPrefix(f.Function, "slices.") {
			return true
		}
		if !more {
			return false
		}
	}
}

// curGoid returns the id of the calling goroutine (parsed from its stack header).
func curGoid() int64 {
	var buf [64]byte
	n := runtime.Stack(buf[:], false)
	// "goroutine 123 [running]:"
	var id int64
	for _, c := range buf[len("goroutine "):n] {
		if c < '0' || c > '9' {
			break
		}
		id = id*10 + int64(c-'0')
	}
	return id
}

// ---------------------------------------------------------------------------------------
// race log

var raceLogOff int64

// RaceLogNew returns race reports written to the GORACE log since the previous call.
func RaceLogNew() string {
	base := os.Getenv("VERIF_RACE_LOG")
	if base == "" || !RaceEnabled {
		return ""
	}
	path := fmt.Sprintf("%s.%d", base, os.Getpid())
	b, err := os.ReadFile(path)
	if err != nil || int64(len(b)) <= raceLogOff {
		return ""
	}
	s := string(b[raceLogOff:])
	raceLogOff = int64(len(b))
	return s
}

// RaceLogCleanup removes this process's race log.
func RaceLogCleanup() {
	if base := os.Getenv("VERIF_RACE_LOG"); base != "" {
		os.Remove(fmt.Sprintf("%s.%d", base, os.Getpid()))
	}
}

// RaceSignature reduces the first race report in text to the pair of innermost frames that belong
// to modPrefix (function names only, sorted), e.g. "gtfs.ParseRealtime|gtfs.ParseRealtime".
func RaceSignature(text, modPrefix string) (sig string, report string) {
	i := strings.Index(text, "WARNING: DATA RACE")
	if i < 0 {
		return "", ""
	}
	rest := text[i:]
	if j := strings.Index(rest, "=================="); j > 0 {
		rest = rest[:j]
	}
	// a report in which one of the two accesses was made by the scheduler's own machinery is an
	// artefact of hiding the scheduler's synchronisation, not a race in the library
	accesses := rest
	if j := strings.Index(accesses, "\nGoroutine "); j > 0 {
		accesses = accesses[:j] // the "created at" stacks always name the scheduler; only the two access stacks count
	}
	for _, marker := range []string{"gtfs/verifhook.", "verif/sim.(*Sched).recv", "verif/sim.(*Sched).Yield", "verif/sim.(*Sched).Run()", "verif/sim.(*Sched).handle"} {
		if strings.Contains(accesses, marker) {
			return "", "harness-artefact: " + rest
		}
	}
	sections := strings.Split(rest, "\n\n")
	var frames []string
	for _, sec := range sections {
		head := strings.TrimSpace(sec)
		isAccess := strings.HasPrefix(head, "WARNING: DATA RACE") || strings.HasPrefix(head, "Previous ") || strings.HasPrefix(head, "Read at") || strings.HasPrefix(head, "Write at")
		if !isAccess {
			continue
		}
		// a section may hold both the WARNING line and the first access
		fr := "outside-repo"
		for _, line := range strings.Split(sec, "\n") {
			l := strings.TrimSpace(line)
			if strings.HasPrefix(l, modPrefix) {
				fn := strings.TrimPrefix(l, modPrefix)
				fn = strings.TrimPrefix(fn, "/")
				if k := strings.LastIndex(fn, "("); k > 0 {
					fn = fn[:k]
				}
				if strings.HasPrefix(fn, ".") {
					fn = "gtfs" + fn
				}
				fr = fn
				break
			}
		}
		frames = append(frames, fr)
		if len(frames) == 2 {
			break
		}
	}
	for len(frames) < 2 {
		frames = append(frames, "unknown")
	}
	if frames[0] > frames[1] {
		frames[0], frames[1] = frames[1], frames[0]
	}
	return frames[0] + "|" + frames[1], rest
}
