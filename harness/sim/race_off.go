//go:build !race

package sim

const RaceEnabled = false

func raceDisable() {}
func raceEnable()  {}
