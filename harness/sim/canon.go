package sim

import (
	"fmt"
	"math"
	"reflect"
	"sort"
	"strconv"
	"strings"
	"time"
)

// Canonical dump: a deterministic textual image of any result value. Slices in order (nil ≡ empty),
// pointers followed with first-visit numbering (sharing and cycles are content, addresses are not),
// time.Time as (unix, nsec, zone name, offset), floats by bit pattern, interfaces with their dynamic type.

type DumpOpts struct {
	// SortTypes: slices whose element type name (pkg.Type) is listed are visited in content order
	// instead of slice order. Used by engines that must not be sensitive to orders that are
	// another property's business (map-built collections, see DESIGN §4/C18).
	SortTypes map[string]bool
	// SkipFields: "Type.Field" names that are left out.
	SkipFields map[string]bool
}

var timeType = reflect.TypeOf(time.Time{})
var locPtrType = reflect.TypeOf((*time.Location)(nil))

type dumper struct {
	sb   strings.Builder
	seen map[uintptr]int
	opts *DumpOpts
}

func Dump(v any, opts *DumpOpts) string {
	Beat()
	if opts == nil {
		opts = &DumpOpts{}
	}
	d := &dumper{seen: map[uintptr]int{}, opts: opts}
	d.walk("", reflect.ValueOf(v))
	return d.sb.String()
}

func (d *dumper) line(path, val string) {
	d.sb.WriteString(path)
	d.sb.WriteString(" = ")
	d.sb.WriteString(val)
	d.sb.WriteByte('\n')
}

func fmtTime(t time.Time) string {
	name, off := t.Zone()
	locName := "nil"
	if l := t.Location(); l != nil {
		locName = l.String()
	}
	if t.IsZero() {
		return "time(zero," + locName + ")"
	}
	return fmt.Sprintf("time(%d,%d,%s,%s,%d)", t.Unix(), t.Nanosecond(), locName, name, off)
}

func (d *dumper) walk(path string, v reflect.Value) {
	if !v.IsValid() {
		d.line(path, "<invalid>")
		return
	}
	t := v.Type()
	if t == timeType {
		if v.CanInterface() {
			d.line(path, fmtTime(v.Interface().(time.Time)))
		} else {
			d.line(path, "time(unexported)")
		}
		return
	}
	if t == locPtrType {
		if v.IsNil() {
			d.line(path, "loc(nil)")
		} else if v.CanInterface() {
			d.line(path, "loc("+v.Interface().(*time.Location).String()+")")
		}
		return
	}
	switch v.Kind() {
	case reflect.Bool:
		d.line(path, strconv.FormatBool(v.Bool()))
	case reflect.Int, reflect.Int8, reflect.Int16, reflect.Int32, reflect.Int64:
		d.line(path, strconv.FormatInt(v.Int(), 10))
	case reflect.Uint, reflect.Uint8, reflect.Uint16, reflect.Uint32, reflect.Uint64, reflect.Uintptr:
		d.line(path, strconv.FormatUint(v.Uint(), 10))
	case reflect.Float32:
		d.line(path, fmt.Sprintf("f32:%08x(%v)", math.Float32bits(float32(v.Float())), v.Float()))
	case reflect.Float64:
		d.line(path, fmt.Sprintf("f64:%016x(%v)", math.Float64bits(v.Float()), v.Float()))
	case reflect.String:
		d.line(path, strconv.Quote(v.String()))
	case reflect.Ptr:
		if v.IsNil() {
			d.line(path, "nil")
			return
		}
		addr := v.Pointer()
		if n, ok := d.seen[addr]; ok {
			d.line(path, "&#"+strconv.Itoa(n))
			return
		}
		n := len(d.seen) + 1
		d.seen[addr] = n
		d.line(path, "&#"+strconv.Itoa(n)+":")
		d.walk(path+"*", v.Elem())
	case reflect.Interface:
		if v.IsNil() {
			d.line(path, "nil")
			return
		}
		e := v.Elem()
		if err, ok := safeError(e); ok {
			d.line(path, "error("+e.Type().String()+"):"+strconv.Quote(err))
			if e.Kind() != reflect.Struct {
				return
			}
		}
		d.line(path, "iface("+e.Type().String()+")")
		d.walk(path, e)
	case reflect.Slice, reflect.Array:
		n := v.Len()
		if v.Kind() == reflect.Slice && t.Elem().Kind() == reflect.Uint8 {
			d.line(path, "bytes:"+strconv.Quote(string(v.Bytes())))
			return
		}
		d.line(path+".len", strconv.Itoa(n))
		order := make([]int, n)
		for i := range order {
			order[i] = i
		}
		if d.opts.SortTypes != nil && d.opts.SortTypes[t.Elem().String()] {
			keys := make([]string, n)
			for i := 0; i < n; i++ {
				keys[i] = contentKey(v.Index(i), d.opts)
			}
			sort.SliceStable(order, func(a, b int) bool { return keys[order[a]] < keys[order[b]] })
		}
		for k, i := range order {
			d.walk(path+"["+strconv.Itoa(k)+"]", v.Index(i))
		}
	case reflect.Struct:
		for i := 0; i < t.NumField(); i++ {
			f := t.Field(i)
			if d.opts.SkipFields != nil && d.opts.SkipFields[t.Name()+"."+f.Name] {
				continue
			}
			d.walk(path+"."+f.Name, v.Field(i))
		}
	case reflect.Map:
		// results contain no maps; dump sorted by key image to stay deterministic if one appears
		keys := v.MapKeys()
		imgs := make([]string, len(keys))
		for i, k := range keys {
			imgs[i] = contentKey(k, d.opts)
		}
		idx := make([]int, len(keys))
		for i := range idx {
			idx[i] = i
		}
		sort.Slice(idx, func(a, b int) bool { return imgs[idx[a]] < imgs[idx[b]] })
		d.line(path+".maplen", strconv.Itoa(len(keys)))
		for _, i := range idx {
			d.walk(path+"{"+imgs[i]+"}", v.MapIndex(keys[i]))
		}
	case reflect.Func, reflect.Chan, reflect.UnsafePointer:
		d.line(path, "<"+v.Kind().String()+">")
	default:
		d.line(path, "<?"+v.Kind().String()+">")
	}
}

func safeError(e reflect.Value) (s string, ok bool) {
	if !e.CanInterface() {
		return "", false
	}
	err, isErr := e.Interface().(error)
	if !isErr {
		return "", false
	}
	defer func() {
		if r := recover(); r != nil {
			s, ok = fmt.Sprintf("<Error() panicked: %v>", r), true
		}
	}()
	return err.Error(), true
}

// contentKey is an address-free, numbering-free image used only as a sort key: pointers are
// inlined, cycles are cut by depth.
func contentKey(v reflect.Value, opts *DumpOpts) string {
	var sb strings.Builder
	keyWalk(&sb, v, 0, opts)
	return sb.String()
}

func keyWalk(sb *strings.Builder, v reflect.Value, depth int, opts *DumpOpts) {
	if depth > 6 {
		sb.WriteString("…")
		return
	}
	if !v.IsValid() {
		return
	}
	t := v.Type()
	if t == timeType {
		if v.CanInterface() {
			sb.WriteString(fmtTime(v.Interface().(time.Time)))
		}
		return
	}
	switch v.Kind() {
	case reflect.Bool:
		sb.WriteString(strconv.FormatBool(v.Bool()))
	case reflect.Int, reflect.Int8, reflect.Int16, reflect.Int32, reflect.Int64:
		fmt.Fprintf(sb, "%020d", v.Int()+math.MaxInt64/2)
	case reflect.Uint, reflect.Uint8, reflect.Uint16, reflect.Uint32, reflect.Uint64, reflect.Uintptr:
		fmt.Fprintf(sb, "%020d", v.Uint())
	case reflect.Float32, reflect.Float64:
		fmt.Fprintf(sb, "%016x", math.Float64bits(v.Float()))
	case reflect.String:
		sb.WriteString(strconv.Quote(v.String()))
	case reflect.Ptr, reflect.Interface:
		if v.IsNil() {
			sb.WriteString("nil")
			return
		}
		sb.WriteString("&")
		keyWalk(sb, v.Elem(), depth+1, opts)
	case reflect.Slice, reflect.Array:
		sb.WriteString("[")
		n := v.Len()
		parts := make([]string, n)
		for i := 0; i < n; i++ {
			var p strings.Builder
			keyWalk(&p, v.Index(i), depth+1, opts)
			parts[i] = p.String()
		}
		if opts != nil && opts.SortTypes != nil && opts.SortTypes[t.Elem().String()] {
			sort.Strings(parts)
		}
		sb.WriteString(strings.Join(parts, ","))
		sb.WriteString("]")
	case reflect.Struct:
		sb.WriteString("{")
		for i := 0; i < t.NumField(); i++ {
			if opts != nil && opts.SkipFields != nil && opts.SkipFields[t.Name()+"."+t.Field(i).Name] {
				continue
			}
			keyWalk(sb, v.Field(i), depth+1, opts)
			sb.WriteString(";")
		}
		sb.WriteString("}")
	default:
		sb.WriteString("?")
	}
}

// FirstDiff describes where two dumps first differ.
func FirstDiff(a, b string) string {
	if a == b {
		return ""
	}
	al := strings.Split(a, "\n")
	bl := strings.Split(b, "\n")
	for i := 0; i < len(al) || i < len(bl); i++ {
		var x, y string
		if i < len(al) {
			x = al[i]
		} else {
			x = "<end>"
		}
		if i < len(bl) {
			y = bl[i]
		} else {
			y = "<end>"
		}
		if x != y {
			return fmt.Sprintf("line %d: %s  !=  %s", i+1, clip(x, 160), clip(y, 160))
		}
	}
	return "differ"
}

// DiffPath returns only the path part of the first differing line (for signatures): indices are
// replaced by [] so that a signature names a field, not a position.
func DiffPath(a, b string) string {
	al := strings.Split(a, "\n")
	bl := strings.Split(b, "\n")
	for i := 0; i < len(al) || i < len(bl); i++ {
		var x, y string
		if i < len(al) {
			x = al[i]
		}
		if i < len(bl) {
			y = bl[i]
		}
		if x != y {
			p := x
			if p == "" {
				p = y
			}
			if j := strings.Index(p, " = "); j >= 0 {
				p = p[:j]
			}
			return stripIndices(p)
		}
	}
	return ""
}

func stripIndices(p string) string {
	var sb strings.Builder
	skip := false
	for _, c := range p {
		switch {
		case c == '[':
			skip = true
			sb.WriteString("[]")
		case c == ']':
			skip = false
		case !skip:
			sb.WriteRune(c)
		}
	}
	return sb.String()
}

func clip(s string, n int) string {
	if len(s) > n {
		return s[:n] + "…"
	}
	return s
}

func Clip(s string, n int) string { return clip(s, n) }
