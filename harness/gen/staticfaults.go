package gen

import (
	"fmt"
	"strings"
	"unicode/utf16"

	"verif/sim"
)

// Record-level faults on the table model (DESIGN.md §2.6). Each returns a description for the event log.

var junkTokens = []string{"19000229", "21000229", "20230229", "06:00:00\xa0", "\x8506:00:00", "20240015", "20240100", "20241332", "20240230", "00000000", "99999999", "-", "+", ".", "#", "/", "abc", "-1", "+5", "1e999", "NaN", "25:61:61", "2024-01-01", "99999999999999999999", "\x00", " ", "ü", "12:xx:00", "1:2:3:4", "0", "-0.0", "20241301", strings.Repeat("9", 400), "\"", "a,b", "line\nbreak"}

type FaultFocus int

const (
	FocusAll FaultFocus = iota
	FocusRefs
)

var refCols = map[string][]string{
	"routes.txt":         {"agency_id"},
	"stops.txt":          {"parent_station"},
	"transfers.txt":      {"from_stop_id", "to_stop_id"},
	"trips.txt":          {"route_id", "service_id", "shape_id"},
	"stop_times.txt":     {"trip_id", "stop_id"},
	"frequencies.txt":    {"trip_id"},
	"calendar_dates.txt": {"service_id"},
}

var idCols = map[string]string{
	"agency.txt": "agency_id", "routes.txt": "route_id", "stops.txt": "stop_id", "trips.txt": "trip_id", "calendar.txt": "service_id", "shapes.txt": "shape_id",
}

// cell/setCell tolerate columns and cells that earlier faults removed.
func cell(tb *Table, r int, col int) string {
	if col < 0 || r < 0 || r >= len(tb.Rows) || col >= len(tb.Rows[r]) {
		return ""
	}
	return tb.Rows[r][col]
}

func setCell(tb *Table, r int, col int, v string) bool {
	if col < 0 || r < 0 || r >= len(tb.Rows) || col >= len(tb.Rows[r]) {
		return false
	}
	tb.Rows[r][col] = v
	return true
}

func pickTable(t *sim.T, f *Feed, names ...string) *Table {
	var cands []*Table
	for _, tb := range f.Tables {
		if tb.Raw != nil {
			continue
		}
		if len(names) == 0 {
			cands = append(cands, tb)
			continue
		}
		for _, n := range names {
			if tb.Name == n {
				cands = append(cands, tb)
			}
		}
	}
	if len(cands) == 0 {
		return nil
	}
	return cands[t.Choose(len(cands))]
}

// MutateStatic applies one record fault to the model's feed. kind -1 draws one.
func MutateStatic(t *sim.T, m *StaticModel, focus FaultFocus) string {
	f := m.Feed
	var kind int
	if focus == FocusRefs {
		kind = []int{2, 3, 4, 5, 6, 7, 16, 17, 18, 0, 19, 20, 14, 21, 24}[t.Choose(15)]
	} else {
		kind = t.Choose(29)
	}
	switch kind {
	case 0: // blank a cell
		tb := pickTable(t, f)
		if tb == nil || len(tb.Rows) == 0 {
			return ""
		}
		r, c := t.Choose(len(tb.Rows)), t.Choose(len(tb.Header))
		if c < len(tb.Rows[r]) {
			setCell(tb, r, c, "")
		}
		return fmt.Sprintf("blank %s row %d col %s", tb.Name, r+1, tb.Header[c])
	case 1: // junk in a cell
		tb := pickTable(t, f)
		if tb == nil || len(tb.Rows) == 0 {
			return ""
		}
		r, c := t.Choose(len(tb.Rows)), t.Choose(len(tb.Header))
		tok := junkTokens[t.Choose(len(junkTokens))]
		if c < len(tb.Rows[r]) {
			setCell(tb, r, c, tok)
		}
		return fmt.Sprintf("junk %q in %s row %d col %s", sim.Clip(tok, 12), tb.Name, r+1, tb.Header[c])
	case 2: // dangling reference
		tb := pickTable(t, f, "routes.txt", "stops.txt", "transfers.txt", "trips.txt", "stop_times.txt", "frequencies.txt", "calendar_dates.txt")
		if tb == nil || len(tb.Rows) == 0 {
			return ""
		}
		cols := refCols[tb.Name]
		col := tb.Col(cols[t.Choose(len(cols))])
		if col < 0 {
			return ""
		}
		r := t.Choose(len(tb.Rows))
		dangling := fmt.Sprintf("dangling%d", t.Choose(3))
		if old := cell(tb, r, col); old != "" && t.Chance(1, 3) {
			// a near miss of the valid reference: padded, case-changed, with or without leading zeros
			nm := []string{old + " ", " " + old, "\t" + old, strings.ToUpper(old), strings.ToLower(old), "0" + old, "00" + old, strings.TrimLeft(old, "0"), old + "\u00a0", old + ".0"}[t.Choose(10)]
			if nm != old && nm != "" {
				setCell(tb, r, col, nm)
				return fmt.Sprintf("near-miss reference %q for %q in %s row %d col %s", nm, old, tb.Name, r+1, tb.Header[col])
			}
		}
		if t.Chance(1, 2) {
			// an id that looks like the ids of other feeds (every generated feed numbers its entities the same
			// way): a lookup structure that survives from an earlier parse would resolve it
			prefix := map[string]string{"agency_id": "ag", "parent_station": "s", "from_stop_id": "s", "to_stop_id": "s", "stop_id": "s", "route_id": "r", "service_id": "svc", "shape_id": "sh", "trip_id": "t"}[tb.Header[col]]
			dangling = fmt.Sprintf("%s%d", prefix, 90+t.Choose(40))
			if t.Chance(1, 2) {
				dangling = fmt.Sprintf("%s%d", prefix, len(tb.Rows)+t.Choose(6)+len(m.StopIDs))
			}
		}
		setCell(tb, r, col, dangling)
		return fmt.Sprintf("dangling reference in %s row %d col %s", tb.Name, r+1, tb.Header[col])
	case 3: // duplicate a row (duplicate ids)
		tb := pickTable(t, f)
		if tb == nil || len(tb.Rows) == 0 {
			return ""
		}
		r := t.Choose(len(tb.Rows))
		at := t.Choose(len(tb.Rows) + 1)
		row := append([]string(nil), tb.Rows[r]...)
		tb.Rows = append(tb.Rows, nil)
		copy(tb.Rows[at+1:], tb.Rows[at:])
		tb.Rows[at] = row
		return fmt.Sprintf("duplicate %s row %d at %d", tb.Name, r+1, at+1)
	case 4: // id equal to another row's id, other cells differ
		tb := pickTable(t, f, "agency.txt", "routes.txt", "stops.txt", "trips.txt", "calendar.txt")
		if tb == nil || len(tb.Rows) < 2 {
			return ""
		}
		col := tb.Col(idCols[tb.Name])
		if col < 0 {
			return ""
		}
		a, b := t.Choose(len(tb.Rows)), t.Choose(len(tb.Rows))
		setCell(tb, a, col, cell(tb, b, col))
		return fmt.Sprintf("%s row %d takes the id of row %d", tb.Name, a+1, b+1)
	case 5: // self parent
		tb := f.Table("stops.txt")
		if tb == nil || tb.Raw != nil || len(tb.Rows) == 0 || tb.Col("parent_station") < 0 {
			return ""
		}
		r := t.Choose(len(tb.Rows))
		setCell(tb, r, tb.Col("parent_station"), cell(tb, r, tb.Col("stop_id")))
		return fmt.Sprintf("stop row %d is its own parent", r+1) + shadowRow(t, tb, r)
	case 6: // k-cycle of parents
		tb := f.Table("stops.txt")
		if tb == nil || tb.Raw != nil || len(tb.Rows) < 2 || tb.Col("parent_station") < 0 {
			return ""
		}
		k := t.Range(2, min(5, len(tb.Rows)))
		if t.Chance(1, 6) {
			k = len(tb.Rows) // one ring through every stop of the table (hundreds of links in large tables)
			if k > 1200 {
				k = 1200
			}
		}
		start := t.Choose(len(tb.Rows))
		pc, ic := tb.Col("parent_station"), tb.Col("stop_id")
		for i := 0; i < k; i++ {
			a := (start + i) % len(tb.Rows)
			b := (start + (i+1)%k) % len(tb.Rows)
			if i == k-1 {
				b = start
			}
			setCell(tb, a, pc, cell(tb, b, ic))
		}
		return fmt.Sprintf("parent cycle of length %d starting at stop row %d", k, start+1) + shadowRow(t, tb, start)
	case 7: // same-stop transfer
		tb := f.Table("transfers.txt")
		if tb == nil || tb.Raw != nil || len(tb.Rows) == 0 {
			return ""
		}
		r := t.Choose(len(tb.Rows))
		setCell(tb, r, tb.Col("to_stop_id"), cell(tb, r, tb.Col("from_stop_id")))
		return fmt.Sprintf("same-stop transfer row %d", r+1)
	case 8: // drop a column
		tb := pickTable(t, f)
		if tb == nil || len(tb.Header) < 2 {
			return ""
		}
		c := t.Choose(len(tb.Header))
		name := tb.Header[c]
		tb.Header = append(tb.Header[:c:c], tb.Header[c+1:]...)
		for i, r := range tb.Rows {
			if c < len(r) {
				tb.Rows[i] = append(r[:c:c], r[c+1:]...)
			}
		}
		return fmt.Sprintf("drop column %s of %s", name, tb.Name)
	case 9: // duplicate a column header
		tb := pickTable(t, f)
		if tb == nil || len(tb.Header) < 2 {
			return ""
		}
		a, b := t.Choose(len(tb.Header)), t.Choose(len(tb.Header))
		tb.Header[a] = tb.Header[b]
		return fmt.Sprintf("%s: header %d renamed to %s (duplicate column)", tb.Name, a, tb.Header[b])
	case 10: // rename a column
		tb := pickTable(t, f)
		if tb == nil {
			return ""
		}
		c := t.Choose(len(tb.Header))
		old := tb.Header[c]
		tb.Header[c] = []string{"", " " + old, strings.ToUpper(old), old + "_x"}[t.Choose(4)]
		return fmt.Sprintf("%s: column %s renamed to %q", tb.Name, old, tb.Header[c])
	case 11: // header only
		tb := pickTable(t, f)
		if tb == nil {
			return ""
		}
		tb.Rows = nil
		return fmt.Sprintf("%s: header only", tb.Name)
	case 12: // raw member faults
		tb := pickTable(t, f)
		if tb == nil {
			return ""
		}
		csv := tb.CSV(false, false)
		switch t.Choose(7) {
		case 0:
			tb.Raw = []byte{}
			return tb.Name + ": empty member"
		case 1:
			tb.Raw = []byte("\n\n\n")
			return tb.Name + ": only newlines"
		case 2:
			tb.Raw = toUTF16(csv, false)
			return tb.Name + ": UTF-16LE with BOM"
		case 3:
			tb.Raw = toUTF16(csv, true)
			return tb.Name + ": UTF-16BE with BOM"
		case 4:
			tb.Raw = append([]byte{0xEF, 0xBB, 0xBF}, csv...)
			return tb.Name + ": UTF-8 BOM"
		case 5:
			tb.Raw = append(append([]byte(nil), csv...), []byte("\"unterminated,quote\n1,2")...)
			return tb.Name + ": unterminated quote at the end"
		default:
			if len(csv) > 2 {
				tb.Raw = append([]byte(nil), csv[:t.Range(1, len(csv)-1)]...)
			} else {
				tb.Raw = []byte{}
			}
			return tb.Name + ": member cut short"
		}
	case 13: // drop a file
		if len(f.Tables) == 0 {
			return ""
		}
		i := t.Choose(len(f.Tables))
		name := f.Tables[i].Name
		f.Tables = append(f.Tables[:i:i], f.Tables[i+1:]...)
		return "drop " + name
	case 14: // short or long row
		tb := pickTable(t, f)
		if tb == nil || len(tb.Rows) == 0 {
			return ""
		}
		r := t.Choose(len(tb.Rows))
		if t.Chance(1, 2) && len(tb.Rows[r]) > 1 {
			tb.Rows[r] = tb.Rows[r][:t.Range(1, len(tb.Rows[r])-1)]
			return fmt.Sprintf("%s row %d cut short", tb.Name, r+1)
		}
		tb.Rows[r] = append(tb.Rows[r], "extra", "cells")
		return fmt.Sprintf("%s row %d too long", tb.Name, r+1)
	case 15: // duplicate member name / extra unknown member
		if len(f.Tables) == 0 {
			return ""
		}
		src := f.Tables[t.Choose(len(f.Tables))]
		c := src.Clone()
		if t.Chance(1, 2) {
			c.Name = "unknown_" + c.Name
		} else if len(c.Rows) > 0 {
			c.Rows = c.Rows[:len(c.Rows)/2]
		}
		f.Tables = append(f.Tables, c)
		return "extra member " + c.Name
	case 16: // blank id with a valid parent / blank id generally
		tb := pickTable(t, f, "stops.txt", "routes.txt", "trips.txt", "agency.txt")
		if tb == nil || len(tb.Rows) == 0 {
			return ""
		}
		col := tb.Col(idCols[tb.Name])
		if col < 0 {
			return ""
		}
		r := t.Choose(len(tb.Rows))
		setCell(tb, r, col, "")
		return fmt.Sprintf("%s row %d: blank id", tb.Name, r+1)
	case 17: // grow a table past several slice re-allocations (fresh ids, references kept)
		tb := pickTable(t, f, "stops.txt", "routes.txt", "trips.txt", "agency.txt", "calendar.txt", "shapes.txt")
		if tb == nil || len(tb.Rows) == 0 {
			return ""
		}
		col := tb.Col(idCols[tb.Name])
		if col < 0 {
			return ""
		}
		n := t.Range(10, 70)
		if t.Chance(1, 12) {
			n = t.Range(300, 2500) // past pre-allocated capacities
		}
		base := len(tb.Rows)
		for i := 0; i < n; i++ {
			row := append([]string(nil), tb.Rows[t.Choose(base)]...)
			if col < len(row) {
				row[col] = fmt.Sprintf("%s_g%d", row[col], i)
			}
			at := t.Choose(len(tb.Rows) + 1)
			tb.Rows = append(tb.Rows, nil)
			copy(tb.Rows[at+1:], tb.Rows[at:])
			tb.Rows[at] = row
		}
		return fmt.Sprintf("%s grown by %d rows with fresh ids", tb.Name, n)
	case 18: // swap two rows
		tb := pickTable(t, f)
		if tb == nil || len(tb.Rows) < 2 {
			return ""
		}
		a, b := t.Choose(len(tb.Rows)), t.Choose(len(tb.Rows))
		tb.Rows[a], tb.Rows[b] = tb.Rows[b], tb.Rows[a]
		return fmt.Sprintf("%s rows %d and %d swapped", tb.Name, a+1, b+1)
	case 19: // parent points forward/backward to any stop (deep chains)
		tb := f.Table("stops.txt")
		if tb == nil || tb.Raw != nil || len(tb.Rows) < 2 || tb.Col("parent_station") < 0 {
			return ""
		}
		r := t.Choose(len(tb.Rows))
		o := t.Choose(len(tb.Rows))
		setCell(tb, r, tb.Col("parent_station"), cell(tb, o, tb.Col("stop_id")))
		return fmt.Sprintf("stop row %d re-parented to row %d", r+1, o+1)
	case 21: // several cells of one row blank (several required values missing at once)
		tb := pickTable(t, f)
		if t.Chance(1, 2) {
			if a := f.Table("agency.txt"); a != nil && a.Raw == nil {
				tb = a
			}
		}
		if tb == nil || len(tb.Rows) == 0 {
			return ""
		}
		r := t.Choose(len(tb.Rows))
		n := 0
		for c := range tb.Header {
			if t.Chance(1, 2) && setCell(tb, r, c, "") {
				n++
			}
		}
		return fmt.Sprintf("%s row %d: %d cells blank", tb.Name, r+1, n)
	case 22: // a very wide table (hundreds of unknown columns)
		tb := pickTable(t, f)
		if tb == nil {
			return ""
		}
		n := []int{20, 300, 1000}[t.Choose(3)]
		for k := 0; k < n; k++ {
			tb.Header = append(tb.Header, fmt.Sprintf("x_extra_%d", k))
		}
		for i := range tb.Rows {
			for k := 0; k < n; k++ {
				tb.Rows[i] = append(tb.Rows[i], "")
			}
		}
		return fmt.Sprintf("%s widened by %d unknown columns", tb.Name, n)
	case 23: // a date-like cell with an impossible month or day
		tb := pickTable(t, f, "calendar.txt", "calendar_dates.txt")
		if tb == nil || len(tb.Rows) == 0 {
			return ""
		}
		cols := []string{"start_date", "end_date", "date"}
		col := tb.Col(cols[t.Choose(3)])
		if col < 0 {
			return ""
		}
		r := t.Choose(len(tb.Rows))
		v := []string{"20240015", "20240100", "20241332", "20240230", "20230229", "00000000", "99999999", "20240001", "2024001", "202400150"}[t.Choose(10)]
		setCell(tb, r, col, v)
		return fmt.Sprintf("%s row %d col %s = %s", tb.Name, r+1, tb.Header[col], v)
	case 24: // the same string used as an id in two unrelated tables (stop id == route id == trip id ...)
		a := pickTable(t, f, "agency.txt", "routes.txt", "stops.txt", "trips.txt", "calendar.txt", "shapes.txt")
		b := pickTable(t, f, "agency.txt", "routes.txt", "stops.txt", "trips.txt", "calendar.txt", "shapes.txt")
		if a == nil || b == nil || a == b || len(a.Rows) == 0 || len(b.Rows) == 0 {
			return ""
		}
		ca, cb := a.Col(idCols[a.Name]), b.Col(idCols[b.Name])
		ra, rb := t.Choose(len(a.Rows)), t.Choose(len(b.Rows))
		oldID, newID := cell(a, ra, ca), cell(b, rb, cb)
		if oldID == "" || newID == "" || !setCell(a, ra, ca, newID) {
			return ""
		}
		// keep references to the renamed entity resolvable
		for _, tb := range f.Tables {
			if tb.Raw != nil {
				continue
			}
			for _, rc := range refCols[tb.Name] {
				c := tb.Col(rc)
				for r := range tb.Rows {
					if strings.HasPrefix(rc, strings.TrimSuffix(strings.TrimSuffix(idCols[a.Name], "_id"), "s")) || rc == idCols[a.Name] || (a.Name == "stops.txt" && (rc == "parent_station" || rc == "from_stop_id" || rc == "to_stop_id")) {
						if cell(tb, r, c) == oldID {
							setCell(tb, r, c, newID)
						}
					}
				}
			}
		}
		return fmt.Sprintf("%s id %q renamed to %q, the id of a %s row", a.Name, oldID, newID, b.Name)
	case 25: // archive layout: the feed (or a copy of some tables) sits in folders; short-named extra members
		n := 0
		switch t.Choose(3) {
		case 0: // the whole feed inside one folder
			for _, tb := range f.Tables {
				tb.Name = "google_transit/" + tb.Name
				n++
			}
		case 1: // two folders hold differing copies of a table that may or may not exist at the top level
			if len(f.Tables) > 0 {
				src := f.Tables[t.Choose(len(f.Tables))]
				a, b := src.Clone(), src.Clone()
				base := src.Name
				a.Name, b.Name = "current/"+base, "previous/"+base
				if len(b.Rows) > 0 {
					b.Rows = b.Rows[:len(b.Rows)/2]
				}
				f.Tables = append(f.Tables, a, b)
				if t.Chance(1, 2) {
					src.Name = "unused_" + base
				}
				n = 2
			}
		case 2:
			f.Tables = append(f.Tables, &Table{Name: "x/agency.txt", Header: []string{"agency_name"}, Rows: [][]string{{"nested"}}})
			n = 1
		}
		for _, extra := range []string{"LICENSE", "a", "dir/"} {
			if t.Chance(1, 2) {
				f.Tables = append(f.Tables, &Table{Name: extra, Raw: []byte("x")})
			}
		}
		return fmt.Sprintf("archive layout with folders (%d members moved or added)", n)
	case 26: // a UTF-16 member rich in characters outside the basic plane, several KiB long
		tb := pickTable(t, f)
		if tb == nil || len(tb.Rows) == 0 {
			return ""
		}
		c := tb.Clone()
		emoji := []string{"\U0001F68B", "\U0001F687", "\U00010348", "\U0001F600"}
		for len(c.Rows) < 120 {
			c.Rows = append(c.Rows, append([]string(nil), c.Rows[len(c.Rows)%len(tb.Rows)]...))
		}
		for r := range c.Rows {
			for col := range c.Rows[r] {
				if t.Chance(1, 3) {
					c.Rows[r][col] += strings.Repeat(emoji[t.Choose(4)], 1+t.Choose(3))
				}
			}
		}
		tb.Raw = toUTF16(c.CSV(false, false), t.Chance(1, 2))
		return fmt.Sprintf("%s as UTF-16 with characters outside the basic plane (%d bytes)", tb.Name, len(tb.Raw))
	case 27, 28: // a boundary value in a numeric or time column (zero, minus one, 32/64-bit limits, 24:00:00 ...)
		numeric := map[string][]string{
			"frequencies.txt": {"headway_secs", "start_time", "end_time", "exact_times"},
			"stop_times.txt":  {"stop_sequence", "arrival_time", "departure_time", "shape_dist_traveled", "pickup_type", "timepoint"},
			"shapes.txt":      {"shape_pt_sequence", "shape_pt_lat", "shape_pt_lon", "shape_dist_traveled"},
			"transfers.txt":   {"min_transfer_time", "transfer_type"},
			"routes.txt":      {"route_sort_order", "route_type"},
			"stops.txt":       {"stop_lat", "stop_lon", "location_type", "wheelchair_boarding"},
			"calendar.txt":    {"monday", "sunday"},
		}
		tb := pickTable(t, f, "frequencies.txt", "stop_times.txt", "shapes.txt", "transfers.txt", "routes.txt", "stops.txt", "calendar.txt")
		if tb == nil || len(tb.Rows) == 0 {
			return ""
		}
		cols := numeric[tb.Name]
		col := tb.Col(cols[t.Choose(len(cols))])
		if col < 0 {
			return ""
		}
		v := []string{"0", "-1", "1", "00", "2147483647", "2147483648", "-2147483648", "4294967295", "4294967296", "9223372036854775807", "9223372036854775808", "0.0", "-0.0", "1e9", "00:00:00", "24:00:00", "23:59:59", "99:59:59", "0:0:0", "100:00:00", "1:2:3:4", "00:00:00:00", "1:2:3:", ":::1", "-1:00:00", "00:60:60", "1::2", "7:5"}[t.Choose(28)]
		r := t.Choose(len(tb.Rows))
		setCell(tb, r, col, v)
		if tb.Name == "frequencies.txt" && t.Chance(1, 2) {
			setCell(tb, r, tb.Col("exact_times"), "1")
		}
		return fmt.Sprintf("boundary value %s in %s row %d col %s", v, tb.Name, r+1, tb.Header[col])
	case 20: // a reference column made blank
		tb := pickTable(t, f, "routes.txt", "stops.txt", "transfers.txt", "trips.txt", "stop_times.txt", "frequencies.txt")
		if tb == nil || len(tb.Rows) == 0 {
			return ""
		}
		cols := refCols[tb.Name]
		col := tb.Col(cols[t.Choose(len(cols))])
		if col < 0 {
			return ""
		}
		r := t.Choose(len(tb.Rows))
		setCell(tb, r, col, "")
		return fmt.Sprintf("blank reference in %s row %d col %s", tb.Name, r+1, tb.Header[col])
	}
	return ""
}

func toUTF16(b []byte, bigEndian bool) []byte {
	u := utf16.Encode([]rune(string(b)))
	out := make([]byte, 0, 2+2*len(u))
	if bigEndian {
		out = append(out, 0xFE, 0xFF)
	} else {
		out = append(out, 0xFF, 0xFE)
	}
	for _, c := range u {
		if bigEndian {
			out = append(out, byte(c>>8), byte(c))
		} else {
			out = append(out, byte(c), byte(c>>8))
		}
	}
	return out
}

// PadCells returns a description after padding 1-3 cells with surrounding whitespace or changing
// their case: a sibling input that differs from the original only in presentation of a value.
func PadCells(t *sim.T, m *StaticModel) string {
	var descs []string
	for n := t.Range(1, 3); n > 0; n-- {
		var tb *Table
		col := -1
		if t.Chance(1, 2) {
			tb = m.Feed.Table("agency.txt")
			if tb != nil {
				col = tb.Col("agency_timezone")
			}
		}
		if tb == nil || col < 0 {
			tb = pickTable(t, m.Feed)
			if tb == nil || len(tb.Header) == 0 {
				continue
			}
			col = t.Choose(len(tb.Header))
		}
		if len(tb.Rows) == 0 {
			continue
		}
		r := t.Choose(len(tb.Rows))
		v := cell(tb, r, col)
		switch t.Choose(4) {
		case 0:
			v = " " + v
		case 1:
			v = v + " "
		case 2:
			v = "\t" + v + " "
		case 3:
			v = strings.ToLower(v)
		}
		if setCell(tb, r, col, v) {
			descs = append(descs, fmt.Sprintf("%s row %d col %s -> %q", tb.Name, r+1, tb.Header[col], v))
		}
	}
	return strings.Join(descs, "; ")
}

// MergeHeaderCells rewrites one table so that two adjacent header cells become a single cell that holds
// both names joined by a separator (and likewise the two cells of every row): a sibling input whose header
// row is a different list of cells with the same text once joined. Under a correct parser the sibling simply
// lacks those two columns; a cache keyed by the joined header text confuses the two layouts.
func MergeHeaderCells(t *sim.T, m *StaticModel) string {
	tb := pickTable(t, m.Feed)
	if tb == nil || len(tb.Header) < 2 {
		return ""
	}
	i := t.Choose(len(tb.Header) - 1)
	sep := []string{",", ",", ",", "|", "", " ", ";", "\t", "\x00", "/"}[t.Choose(10)]
	merge := func(rec []string) []string {
		if len(rec) <= i+1 {
			return rec
		}
		out := append([]string(nil), rec[:i]...)
		out = append(out, rec[i]+sep+rec[i+1])
		return append(out, rec[i+2:]...)
	}
	desc := fmt.Sprintf("%s: header cells %q and %q merged into one cell with separator %q", tb.Name, tb.Header[i], tb.Header[i+1], sep)
	tb.Header = merge(tb.Header)
	for r := range tb.Rows {
		tb.Rows[r] = merge(tb.Rows[r])
	}
	return desc
}

// shadowRow: now and then a stop on a parent cycle also has a namesake, a row with the same stop_id and no
// parent, somewhere before or after it (the later row wins the id; what is known about "the stop with this id"
// from the earlier row does not hold for the later one).
func shadowRow(t *sim.T, tb *Table, r int) string {
	if !t.Chance(1, 3) {
		return ""
	}
	row := append([]string(nil), tb.Rows[r]...)
	if pc := tb.Col("parent_station"); pc >= 0 && pc < len(row) {
		row[pc] = ""
	}
	at := t.Choose(len(tb.Rows) + 1)
	if t.Chance(1, 2) {
		at = 0
	}
	tb.Rows = append(tb.Rows, nil)
	copy(tb.Rows[at+1:], tb.Rows[at:])
	tb.Rows[at] = row
	return fmt.Sprintf(" (plus a parentless row with the same stop_id at %d)", at+1)
}
