package gen

import (
	"fmt"

	gtfsrt "github.com/jamespfennell/gtfs/proto"
	"google.golang.org/protobuf/proto"
	"google.golang.org/protobuf/reflect/protoreflect"

	"verif/sim"
)

// RichFeed builds one realtime message that exercises every map-built collection and every
// extension code path: NYCT trips and tracks, >= 3 id-bearing vehicles, elevator alert groups,
// Mercury alerts with priorities and metadata, alerts with several route-only trip descriptors.
func RichFeed(t *sim.T) *gtfsrt.FeedMessage { return RichFeedMin(t, 0) }

// RichFeedMin is RichFeed with at least minVehicles id-bearing vehicle entities.
func RichFeedMin(t *sim.T, minVehicles int) *gtfsrt.FeedMessage {
	cfg := DrawWorldCfg(t)
	cfg.Nyct = !t.Chance(1, 5)
	cfg.AlertRate = 0
	if cfg.Trips < 3 {
		cfg.Trips = 3
	}
	w := NewWorld(t, cfg)
	var msg *gtfsrt.FeedMessage
	for i := 0; i < 1+t.Choose(4); i++ {
		msg = w.Tick()
	}
	// id-bearing vehicles (not tied to NYCT descriptors)
	nv := t.Range(0, 6)
	if nv < minVehicles {
		nv = minVehicles
	}
	for i := 0; i < nv; i++ {
		vp := &gtfsrt.VehiclePosition{
			Vehicle:   &gtfsrt.VehicleDescriptor{Id: ps(fmt.Sprintf("veh-%d", i))},
			Timestamp: pu64(uint64(w.pubNow - int64(i))),
		}
		if t.Chance(1, 2) {
			vp.Vehicle.Label = ps(fmt.Sprintf("label %d", i))
		}
		if t.Chance(1, 2) {
			vp.Position = &gtfsrt.Position{Latitude: pf32(40.5 + float32(i)), Longitude: pf32(-73.5), Bearing: pf32(90), Speed: pf32(12.5)}
		}
		if t.Chance(1, 2) {
			vp.Trip = &gtfsrt.TripDescriptor{TripId: ps(fmt.Sprintf("%06d_X..N", 70000+i)), RouteId: ps("X"), StartDate: ps("20240115"), StartTime: ps("11:00:00")}
		}
		if t.Chance(1, 3) {
			o := gtfsrt.VehiclePosition_FEW_SEATS_AVAILABLE
			vp.OccupancyStatus = &o
			vp.OccupancyPercentage = pu32(uint32(t.Choose(101)))
		}
		if t.Chance(1, 3) {
			c := gtfsrt.VehiclePosition_CONGESTION
			vp.CongestionLevel = &c
		}
		msg.Entity = append(msg.Entity, &gtfsrt.FeedEntity{Id: ps(fmt.Sprintf("v%d", i)), Vehicle: vp})
	}
	// a vehicle without any id
	if t.Chance(1, 3) {
		msg.Entity = append(msg.Entity, &gtfsrt.FeedEntity{Id: ps("v-noid"), Vehicle: &gtfsrt.VehiclePosition{StopId: ps("A01N")}})
	}
	// elevator alert groups
	ng := t.Range(0, 4)
	for g := 0; g < ng; g++ {
		el := fmt.Sprintf("%d", 100+g*7)
		platforms := [][]string{{"A27N", "A27S", "E01N", "E01S"}, {"L03N", "L03S"}, {"635N"}, {"R20S", "R20N", "L03N"}}[t.Choose(4)]
		n := t.Range(1, len(platforms))
		for k := 0; k < n; k++ {
			a := &gtfsrt.Alert{
				InformedEntity: []*gtfsrt.EntitySelector{{StopId: ps(platforms[k])}},
				HeaderText:     tr1("Elevator out of service " + el),
			}
			if t.Chance(1, 2) {
				a.ActivePeriod = []*gtfsrt.TimeRange{{Start: pu64(Epoch - 3600), End: pu64(Epoch + 86400)}}
			}
			if t.Chance(1, 2) {
				attachMercury(t, a, w)
			}
			msg.Entity = append(msg.Entity, &gtfsrt.FeedEntity{Id: ps(platforms[k] + "#EL" + el), Alert: a})
		}
	}
	// mercury / lmm alerts
	na := t.Range(0, 4)
	for i := 0; i < na; i++ {
		a := &gtfsrt.Alert{HeaderText: tr1(fmt.Sprintf("Service change %d", i)), DescriptionText: tr1("details")}
		if t.Chance(1, 3) {
			a.DescriptionText = nil
		}
		prio := []int{1, 2, 3, 4, 5, 9, 16, 22, 27, 35, 99}[t.Choose(11)]
		mixed := t.Chance(1, 2) // entities of one alert with different priorities (different mapped effects)
		nie := t.Range(1, 3)
		for k := 0; k < nie; k++ {
			if mixed {
				prio = []int{1, 2, 3, 4, 5, 9, 16, 22, 27, 35, 99}[t.Choose(11)]
			}
			es := &gtfsrt.EntitySelector{AgencyId: ps("MTASBWY"), RouteId: ps([]string{"L", "M", "1"}[k%3])}
			if t.Chance(3, 4) {
				proto.SetExtension(es, gtfsrt.E_MercuryEntitySelector, &gtfsrt.MercuryEntitySelector{SortOrder: ps(fmt.Sprintf("MTASBWY:%s:%d", *es.RouteId, prio))})
			}
			a.InformedEntity = append(a.InformedEntity, es)
		}
		if t.Chance(2, 3) {
			attachMercury(t, a, w)
		}
		id := []string{"lmm:planned_work:", "lmm:alert:", "other:"}[t.Choose(3)] + fmt.Sprint(1000+i)
		msg.Entity = append(msg.Entity, &gtfsrt.FeedEntity{Id: ps(id), Alert: a})
	}
	// alerts with several route-only trip descriptors (fallback informed routes)
	if t.Chance(2, 3) {
		a := &gtfsrt.Alert{HeaderText: tr1("Bus detour")}
		routes := []string{"B41", "B44", "Q10", "M15", "BX12", "S79"}
		n := t.Range(2, len(routes))
		for k := 0; k < n; k++ {
			td := &gtfsrt.TripDescriptor{RouteId: ps(routes[k])}
			switch t.Choose(3) {
			case 1:
				td.DirectionId = pu32(0)
			case 2:
				td.DirectionId = pu32(1)
			}
			a.InformedEntity = append(a.InformedEntity, &gtfsrt.EntitySelector{Trip: td})
		}
		if t.Chance(1, 3) {
			a.InformedEntity = append(a.InformedEntity, &gtfsrt.EntitySelector{RouteId: ps(routes[0])})
		}
		msg.Entity = append(msg.Entity, &gtfsrt.FeedEntity{Id: ps("bus:1"), Alert: a})
	}
	// twins: an entity repeated with a descriptor that differs from the original only in the presence of
	// one field whose written value is the zero value (absent start_time vs "00:00:00", absent direction
	// vs 0, ...): distinct identifiers that careless comparisons treat as equal
	if t.Chance(1, 3) {
		var tus []*gtfsrt.FeedEntity
		for _, e := range msg.Entity {
			if e.TripUpdate != nil && e.TripUpdate.Trip != nil {
				tus = append(tus, e)
			}
		}
		for n := t.Range(1, 2); n > 0 && len(tus) > 0; n-- {
			src := tus[t.Choose(len(tus))]
			twin := proto.Clone(src).(*gtfsrt.FeedEntity)
			twin.Id = ps(src.GetId() + "-twin")
			a, b := src.TripUpdate.Trip, twin.TripUpdate.Trip
			proto.ClearExtension(a, gtfsrt.E_NyctTripDescriptor)
			proto.ClearExtension(b, gtfsrt.E_NyctTripDescriptor)
			switch t.Choose(7) {
			case 5:
				// both start times malformed, with different well-formed prefixes
				a.StartTime, b.StartTime = ps("11:0x:00"), ps("12:0x:00")
			case 6:
				a.StartDate, b.StartDate = ps("2024011x"), ps("2024021x")
			case 0:
				a.StartTime, b.StartTime = nil, ps("00:00:00")
			case 1:
				a.StartDate, b.StartDate = nil, ps("00010101")
			case 2:
				a.DirectionId, b.DirectionId = nil, pu32(0)
			case 3:
				a.RouteId, b.RouteId = nil, ps("")
			case 4:
				sr := gtfsrt.TripDescriptor_SCHEDULED
				a.ScheduleRelationship, b.ScheduleRelationship = nil, &sr
			}
			msg.Entity = append(msg.Entity, twin)
			t.Probe("twin-trip-descriptors")
		}
	}
	// selectors that carry a route-only trip descriptor AND another selector field (kept, and a fallback route too)
	if t.Chance(1, 3) {
		a := &gtfsrt.Alert{HeaderText: tr1("Stop moved")}
		for n := t.Range(1, 3); n > 0; n-- {
			es := &gtfsrt.EntitySelector{Trip: &gtfsrt.TripDescriptor{RouteId: ps([]string{"M15", "B41", "Q10"}[t.Choose(3)])}}
			switch t.Choose(3) {
			case 0:
				es.StopId = ps("S1")
			case 1:
				es.AgencyId = ps("MTA")
			case 2:
				es.RouteType = pi32(3)
			}
			a.InformedEntity = append(a.InformedEntity, es)
		}
		msg.Entity = append(msg.Entity, &gtfsrt.FeedEntity{Id: ps("bus:3"), Alert: a})
	}
	// an alert whose route-only trip descriptors repeat a route, with and without a direction
	if t.Chance(1, 3) {
		a := &gtfsrt.Alert{HeaderText: tr1("Route detour, several selectors")}
		routes := []string{"B41", "Q10", "M15"}
		for n := t.Range(2, 5); n > 0; n-- {
			td := &gtfsrt.TripDescriptor{RouteId: ps(routes[t.Choose(len(routes))])}
			switch t.Choose(3) {
			case 1:
				td.DirectionId = pu32(0)
			case 2:
				td.DirectionId = pu32(1)
			}
			a.InformedEntity = append(a.InformedEntity, &gtfsrt.EntitySelector{Trip: td})
		}
		msg.Entity = append(msg.Entity, &gtfsrt.FeedEntity{Id: ps("bus:2"), Alert: a})
	}
	if t.Chance(1, 4) {
		if n := FillRareFields(t, msg); n > 0 {
			t.Probe("rarely-used-fields-set")
		}
	}
	if t.Chance(1, 2) {
		for i := len(msg.Entity) - 1; i > 0; i-- {
			j := t.Choose(i + 1)
			msg.Entity[i], msg.Entity[j] = msg.Entity[j], msg.Entity[i]
		}
	}
	return msg
}

func tr1(s string) *gtfsrt.TranslatedString {
	return &gtfsrt.TranslatedString{Translation: []*gtfsrt.TranslatedString_Translation{{Text: ps(s), Language: ps("en")}}}
}

func attachMercury(t *sim.T, a *gtfsrt.Alert, w *World) {
	ma := &gtfsrt.MercuryAlert{CreatedAt: pu64(uint64(w.pubNow - 5000)), UpdatedAt: pu64(uint64(w.pubNow - 50)), AlertType: ps("Planned - Part Suspended")}
	if t.Chance(1, 2) {
		ma.DisplayBeforeActive = pu64(3600)
	}
	if t.Chance(1, 2) {
		ma.HumanReadableActivePeriod = tr1("Jan 15, 10 PM to 5 AM")
	}
	proto.SetExtension(a, gtfsrt.E_MercuryAlert, ma)
}

// IrregularIDs returns a copy of the message in which some trip ids keep their first seven characters
// (the NYCT origin-time prefix and the underscore) but get a tail that does not follow the NYCT
// pattern: a sibling input for caches keyed by a prefix of the id.
func IrregularIDs(t *sim.T, m *gtfsrt.FeedMessage) (*gtfsrt.FeedMessage, int) {
	c := proto.Clone(m).(*gtfsrt.FeedMessage)
	n := 0
	for _, e := range c.Entity {
		for _, td := range []*gtfsrt.TripDescriptor{e.GetTripUpdate().GetTrip(), e.GetVehicle().GetTrip()} {
			if td == nil || td.TripId == nil || len(*td.TripId) < 7 || !t.Chance(1, 2) {
				continue
			}
			td.TripId = ps((*td.TripId)[:7] + []string{"L-shuttle", "", "?", "GS.S", "1..N0123456789012345678901234567890"}[t.Choose(5)])
			n++
		}
	}
	return c, n
}

// PerturbValues returns a copy of the message in which identifiers (entity ids, trip ids, Mercury
// updated_at) stay as they are while other values change: a sibling input for caches whose key covers
// too little of what they cache.
func PerturbValues(t *sim.T, m *gtfsrt.FeedMessage) (*gtfsrt.FeedMessage, int) {
	c := proto.Clone(m).(*gtfsrt.FeedMessage)
	n := 0
	for _, e := range c.Entity {
		if a := e.GetAlert(); a != nil {
			if proto.HasExtension(a, gtfsrt.E_MercuryAlert) {
				ma := proto.GetExtension(a, gtfsrt.E_MercuryAlert).(*gtfsrt.MercuryAlert)
				if ma.CreatedAt != nil {
					ma.CreatedAt = pu64(*ma.CreatedAt + 3600)
				}
				ma.DisplayBeforeActive = pu64(ma.GetDisplayBeforeActive() + 60)
				ma.HumanReadableActivePeriod = tr1("changed period")
				n++
			}
			if t.Chance(1, 2) {
				a.HeaderText = tr1("changed header")
				n++
			}
		}
		if tu := e.GetTripUpdate(); tu != nil && t.Chance(1, 2) {
			for _, u := range tu.StopTimeUpdate {
				if u.Arrival != nil && u.Arrival.Time != nil {
					u.Arrival.Time = pi64(*u.Arrival.Time + 60)
					n++
				}
			}
		}
		if vp := e.GetVehicle(); vp != nil && vp.Position != nil && t.Chance(1, 2) {
			vp.Position.Latitude = pf32(vp.Position.GetLatitude() + 0.5)
			n++
		}
	}
	return c, n
}

// FillRareFields sets, with small probability each, optional fields the generators never set themselves
// (walking the message with protoreflect): whatever field a future version of the library starts to
// read, some inputs carry it.
func FillRareFields(t *sim.T, m proto.Message) int {
	return fillRare(t, m.ProtoReflect(), 0)
}

func fillRare(t *sim.T, m protoreflect.Message, depth int) int {
	n := 0
	fds := m.Descriptor().Fields()
	for i := 0; i < fds.Len(); i++ {
		fd := fds.Get(i)
		if fd.IsMap() {
			continue
		}
		if fd.IsList() {
			if fd.Kind() == protoreflect.MessageKind {
				l := m.Get(fd).List()
				if l.Len() == 0 && depth >= 1 && depth < 4 && t.Chance(1, 12) {
					// a repeated message field nobody populates (carriage details, translations, ...): one to three
					// elements, themselves mostly empty (an element with every optional field unset is legal)
					ml := m.Mutable(fd).List()
					for k := t.Range(1, 3); k > 0; k-- {
						el := ml.NewElement()
						n += 1 + fillRare(t, el.Message(), depth+1)
						ml.Append(el)
					}
					continue
				}
				for k := 0; k < l.Len() && k < 40; k++ {
					n += fillRare(t, l.Get(k).Message(), depth+1)
				}
			}
			continue
		}
		if m.Has(fd) {
			if fd.Kind() == protoreflect.MessageKind {
				n += fillRare(t, m.Get(fd).Message(), depth+1)
			}
			continue
		}
		if !t.Chance(1, 12) {
			continue
		}
		switch fd.Kind() {
		case protoreflect.StringKind:
			m.Set(fd, protoreflect.ValueOfString([]string{"x", "", "S1", "rare value"}[t.Choose(4)]))
		case protoreflect.BoolKind:
			m.Set(fd, protoreflect.ValueOfBool(t.Chance(1, 2)))
		case protoreflect.Int32Kind, protoreflect.Sint32Kind, protoreflect.Sfixed32Kind:
			m.Set(fd, protoreflect.ValueOfInt32(int32(t.Range(-2, 100))))
		case protoreflect.Int64Kind, protoreflect.Sint64Kind, protoreflect.Sfixed64Kind:
			m.Set(fd, protoreflect.ValueOfInt64(int64(t.Range(-2, 100000))))
		case protoreflect.Uint32Kind, protoreflect.Fixed32Kind:
			m.Set(fd, protoreflect.ValueOfUint32(uint32(t.Choose(100))))
		case protoreflect.Uint64Kind, protoreflect.Fixed64Kind:
			m.Set(fd, protoreflect.ValueOfUint64(uint64(t.Choose(100000))))
		case protoreflect.FloatKind:
			m.Set(fd, protoreflect.ValueOfFloat32(float32(t.Choose(100))/3))
		case protoreflect.DoubleKind:
			m.Set(fd, protoreflect.ValueOfFloat64(float64(t.Choose(100))/3))
		case protoreflect.EnumKind:
			vals := fd.Enum().Values()
			m.Set(fd, protoreflect.ValueOfEnum(vals.Get(t.Choose(vals.Len())).Number()))
		case protoreflect.MessageKind:
			if depth < 4 {
				sub := m.NewField(fd)
				n += fillRare(t, sub.Message(), depth+1)
				m.Set(fd, sub)
			}
		default:
			continue
		}
		n++
	}
	return n
}
