// Package gen holds the generators the simulations draw their inputs from: a simulated transit
// world that publishes GTFS-realtime snapshots, an adversarial feed-history generator, and a table
// model of a GTFS static feed. Every decision goes through sim.T.Choose.
package gen

import (
	"fmt"
	"strings"
	"time"

	gtfsrt "github.com/jamespfennell/gtfs/proto"
	"google.golang.org/protobuf/proto"

	"verif/sim"
)

const Epoch = 1705312800 // 2024-01-15T10:00:00Z

func ps(s string) *string   { return &s }
func pu32(v uint32) *uint32 { return &v }
func pu64(v uint64) *uint64 { return &v }
func pi64(v int64) *int64   { return &v }
func pi32(v int32) *int32   { return &v }
func pb(v bool) *bool       { return &v }
func pf32(v float32) *float32 {
	return &v
}

// MarshalFeed serialises a feed; required fields are the generator's responsibility.
func MarshalFeed(m *gtfsrt.FeedMessage) []byte {
	b, err := proto.MarshalOptions{AllowPartial: true, Deterministic: true}.Marshal(m)
	if err != nil {
		panic("harness: marshal: " + err.Error())
	}
	return b
}

// ---------------------------------------------------------------------------------------
// World

type WorldCfg struct {
	Routes       int
	Trips        int
	TickMin      int // seconds
	TickMax      int
	Adversarial  bool // arbitrary stop lists instead of moving trains
	Nyct         bool // attach NYCT trip descriptors / tracks
	VehicleEnts  int  // out of 8: chance a trip also gets a VehiclePosition entity
	AlertRate    int  // out of 8 per tick
	OmitRate     int  // out of 16: chance per trip per tick to start an omission streak
	WeirdRate    int  // out of 16: chance per trip per tick of an unusual list change
	FlapAssign   int  // out of 16
	ExplicitTime bool // put start_time / start_date on descriptors (needed without the NYCT extension)
	SharedKeys   bool // allow two trip ids that map to one journal key
	ClockFaults  int  // out of 16 per tick
	ShuffleEnts  bool
	LongLines    bool  // lines of up to 45 stops (slice growth inside the journal)
	DateVariety  bool  // trips start on different service days
	LateNight    bool  // some trips start at or after 24:00:00 of their service day
	Horizon      int   // trains are born (and first assigned) at ticks drawn from [0, Horizon); 0 means 6
	EpochShift   int64 // the world's clock starts this many seconds after Epoch (2038 rollover, far future)
	RepeatDaily  bool  // the same trip id (and time of day) runs on two different service days, as NYCT ids do
	ShortLives   bool  // every train disappears one to three ticks after it appeared (many trips, few at a time)
}

func DrawWorldCfg(t *sim.T) WorldCfg {
	c := WorldCfg{
		Routes:       t.Range(1, 3),
		Trips:        t.Range(1, 8),
		TickMin:      5,
		TickMax:      t.Range(5, 120),
		Adversarial:  t.Chance(1, 3),
		Nyct:         !t.Chance(1, 4),
		VehicleEnts:  t.Choose(5),
		AlertRate:    t.Choose(3),
		OmitRate:     t.Choose(4),
		WeirdRate:    t.Choose(6),
		FlapAssign:   t.Choose(4),
		ExplicitTime: !t.Chance(1, 4),
		SharedKeys:   t.Chance(1, 8),
		ClockFaults:  0,
		ShuffleEnts:  t.Chance(1, 2),
	}
	if t.Chance(1, 4) {
		c.ClockFaults = t.Range(1, 4)
	}
	if t.Chance(1, 12) {
		c.Trips = t.Range(9, 30) // many trips: UID ordering, map growth
		if t.Chance(1, 4) {
			c.Trips = t.Range(65, 300) // more trips than small fixed capacities (64, 128, 256)
		}
	}
	c.LongLines = t.Chance(1, 10)
	c.DateVariety = t.Chance(1, 4)
	c.RepeatDaily = t.Chance(1, 6)
	c.LateNight = t.Chance(1, 6)
	if t.Chance(1, 12) {
		// around 2^31 seconds (19 January 2038), beyond 2^32, and early 1970
		c.EpochShift = []int64{1<<31 - Epoch - 200, 1<<32 - Epoch - 100, 5_000_000_000 - Epoch, 1000 - Epoch}[t.Choose(4)]
	}
	return c
}

type train struct {
	id        string // gtfs trip id
	route     string
	dir       byte // 'N' or 'S'
	startDate string
	startTime string // HH:MM:SS
	trainID   string
	assigned  bool
	everSeen  bool
	line      []string // the stops of its path
	remaining []stopPred
	bornTick  int
	deadTick  int
	omitLeft  int
	noNyct    bool
	assignAt  int // tick at which an unassigned train gets its vehicle (0: not planned)
}

type stopPred struct {
	skipped int // 0 no, 1 SKIPPED with times, 2 SKIPPED without times, 3 NO_DATA
	stop    string
	arr     int64
	dep     int64
	hasA    bool
	hasD    bool
	track   string
}

type World struct {
	t      *sim.T
	Cfg    WorldCfg
	Now    int64 // simulated unix time (the only clock the world reads)
	pubNow int64 // publisher's clock (can be faulted)
	tick   int
	trains []*train
	lines  map[string][]string
	routes []string
	entSeq int
}

var routePool = []string{"L", "M", "1", "A", "J", "GS"}

func NewWorld(t *sim.T, cfg WorldCfg) *World {
	w := &World{t: t, Cfg: cfg, Now: Epoch + cfg.EpochShift, lines: map[string][]string{}}
	w.pubNow = w.Now
	off := t.Choose(len(routePool))
	for i := 0; i < cfg.Routes; i++ {
		r := routePool[(off+i)%len(routePool)]
		w.routes = append(w.routes, r)
		n := t.Range(4, 12)
		if cfg.LongLines && r != "M" {
			n = t.Range(13, 45)
		}
		var line []string
		if r == "M" {
			// the stations the nycttrips extension rewrites, plus neighbours
			base := []string{"M08", "M09", "M10", "M11", "M12", "M13", "M14", "M16", "M18", "M19", "M20", "M21"}
			line = base[:n]
		} else {
			for k := 1; k <= n; k++ {
				line = append(line, fmt.Sprintf("%s%02d", pad1(r), k))
			}
		}
		w.lines[r] = line
	}
	for i := 0; i < cfg.Trips; i++ {
		w.trains = append(w.trains, w.newTrain(i))
	}
	return w
}

func (w *World) horizon() int {
	if w.Cfg.Horizon > 6 {
		return w.Cfg.Horizon
	}
	return 6
}

func (w *World) startDate() string {
	if !w.Cfg.DateVariety {
		return "20240115"
	}
	// service days whose start instants have 9, 10 and 11 decimal digits as Unix seconds (and one before 1970),
	// so that orderings of trip UIDs as strings and as numbers disagree
	// ... and days on which clocks change in New York or Paris (23 and 25 hour days)
	return []string{"20240114", "20240115", "20240116", "20231231", "19991231", "20010908", "20010909", "22870101", "19691231", "19700101", "20240229", "20230229", "20380119", "20380120",
		"20240310", "20241103", "20231105", "20250309", "20240331", "20241027"}[w.t.Weighted(3, 3, 3, 2, 1, 1, 1, 1, 1, 1, 1, 1, 1, 1, 2, 2, 1, 1, 1, 1)]
}

func pad1(r string) string {
	if len(r) == 1 {
		return r
	}
	return r[:1]
}

func (w *World) newTrain(i int) *train {
	t := w.t
	r := w.routes[t.Choose(len(w.routes))]
	dir := byte('N')
	if t.Chance(1, 2) {
		dir = 'S'
	}
	// origin time in hundredths of minutes after midnight; distinct per train unless SharedKeys
	hm := 60000 + 50*i + t.Choose(40)
	if w.Cfg.LateNight && t.Chance(1, 2) {
		hm = 144000 + 50*i + t.Choose(5000) // 24:00:00 .. 24:50:00+ of the service day
		if t.Chance(1, 3) {
			hm = []int{0, 1, 143999, 144000, 144001, 239999, 999999}[t.Choose(7)] // exact boundaries: 00:00:00, 23:59:59, 24:00:00, ...
		}
		t.Probe("world-start-after-24h")
	}
	path := []string{"", "01R", "X", "02"}[t.Choose(4)]
	if t.Chance(1, 10) {
		// a long id (40-70 bytes) that shares all but its last byte with other long ids of the run (fixed-size
		// buffers and keys cut to a length confuse them)
		path = strings.Repeat("PATHWAY7", 8)[:37+t.Choose(24)] + string(rune('a'+t.Choose(3)))
		t.Probe("world-long-trip-id")
	}
	id := fmt.Sprintf("%06d_%s..%c%s", hm, r, dir, path)
	if w.Cfg.SharedKeys && i > 0 && t.Chance(1, 2) {
		// same suffix and same explicit start time as train 0, different 6-char prefix
		o := w.trains[0]
		id = fmt.Sprintf("%06d%s", hm, o.id[6:])
	}
	secs := (hm * 6) / 10
	tr := &train{
		id:        id,
		route:     r,
		dir:       dir,
		startDate: w.startDate(),
		startTime: fmt.Sprintf("%02d:%02d:%02d", secs/3600, (secs/60)%60, secs%60),
		trainID:   fmt.Sprintf("%s%d %02d%02d+ X%d/Y%d", r, i, secs/3600, (secs/60)%60, i, t.Choose(3)),
		assigned:  !t.Chance(1, 3),
		bornTick:  t.Choose(w.horizon()),
		deadTick:  1 << 30,
		noNyct:    t.Chance(1, 12),
	}
	if w.Cfg.SharedKeys && i > 0 && id[6:] == w.trains[0].id[6:] {
		tr.startTime = w.trains[0].startTime
	}
	if w.Cfg.RepeatDaily && i > 0 && t.Chance(1, 2) {
		// the same trip id and time of day as an earlier train, on another service day
		o := w.trains[t.Choose(i)]
		tr.id, tr.route, tr.dir, tr.startTime = o.id, o.route, o.dir, o.startTime
		r, dir = o.route, o.dir
		for _, d := range []string{"20240116", "20240114", "20240117"} {
			if d != o.startDate {
				tr.startDate = d
				break
			}
		}
		t.Probe("world-same-id-other-day")
	}
	if t.Chance(1, 4) {
		tr.deadTick = tr.bornTick + t.Range(1, 12)
	}
	if w.Cfg.ShortLives {
		tr.deadTick = tr.bornTick + t.Range(1, 3)
		// tens of thousands of trains: spread over service days (start times stay below 24 hours, ids six digits)
		hm2 := 60000 + 50*(i%1600) + hm%40
		s2 := (hm2 * 6) / 10
		tr.id = fmt.Sprintf("%06d%s", hm2, tr.id[6:])
		tr.startTime = fmt.Sprintf("%02d:%02d:%02d", s2/3600, (s2/60)%60, s2%60)
		tr.startDate = time.Date(2024, 1, 15+i/1600, 0, 0, 0, 0, time.UTC).Format("20060102")
	}
	if !tr.assigned && w.horizon() > 6 && t.Chance(1, 2) {
		// in long histories: unassigned for a long stretch, assigned at some later tick
		tr.assignAt = tr.bornTick + t.Choose(w.horizon())
	}
	line := append([]string(nil), w.lines[r]...)
	if dir == 'S' {
		for a, b := 0, len(line)-1; a < b; a, b = a+1, b-1 {
			line[a], line[b] = line[b], line[a]
		}
	}
	for k := range line {
		line[k] = line[k] + string(dir)
	}
	tr.line = line
	base := w.Now + int64(t.Range(30, 600))
	for k, s := range line {
		a := base + int64(k*120)
		sk := 0
		if t.Chance(1, 14) {
			sk = 1 + t.Choose(3) // a stop the trip skips (with or without times) or has no data for
		}
		tr.remaining = append(tr.remaining, stopPred{skipped: sk, stop: s, arr: a, dep: a + 30, hasA: k > 0 || t.Chance(1, 2), hasD: true, track: fmt.Sprintf("%d", 1+t.Choose(4))})
	}
	return tr
}

var advAlphabet = []string{"A01N", "B02N", "C03N", "D04N", "E05N", "M11N", "M12S"}

// step advances one train by one tick.
func (w *World) step(tr *train) {
	t := w.t
	if w.Cfg.Adversarial {
		// arbitrary next list derived from the previous one
		switch t.Weighted(4, 3, 3, 2, 1, 1, 2) {
		case 0: // shrink from the front
			k := t.Choose(3)
			if k > len(tr.remaining) {
				k = len(tr.remaining)
			}
			tr.remaining = tr.remaining[k:]
		case 1: // grow at the back
			for n := t.Range(1, 2); n > 0; n-- {
				tr.remaining = append(tr.remaining, w.advStop())
			}
			w.t.Probe("adv-grow-back")
		case 2: // replace the middle / tail
			if len(tr.remaining) > 0 {
				i := t.Choose(len(tr.remaining))
				tr.remaining = append(tr.remaining[:i:i], w.advStop())
				for n := t.Choose(3); n > 0; n-- {
					tr.remaining = append(tr.remaining, w.advStop())
				}
			}
		case 3: // brand new list
			tr.remaining = nil
			for n := t.Choose(5); n > 0; n-- {
				tr.remaining = append(tr.remaining, w.advStop())
			}
		case 4: // empty
			tr.remaining = nil
		case 5: // prepend (first stop not in the journal's list / jump backwards)
			tr.remaining = append([]stopPred{w.advStop()}, tr.remaining...)
		case 6: // unchanged list, new predictions
		}
		for i := range tr.remaining {
			if t.Chance(1, 3) {
				tr.remaining[i].arr += int64(t.Range(-60, 60))
				tr.remaining[i].dep = tr.remaining[i].arr + 30
			}
		}
		return
	}
	// realistic: pass stops whose departure is behind the clock
	for len(tr.remaining) > 0 && tr.remaining[0].dep <= w.Now {
		tr.remaining = tr.remaining[1:]
	}
	for i := range tr.remaining {
		if t.Chance(1, 4) {
			d := int64(t.Range(-20, 90))
			tr.remaining[i].arr += d
			tr.remaining[i].dep += d
		}
	}
	if w.Cfg.WeirdRate > 0 && t.Chance(w.Cfg.WeirdRate, 16) {
		switch t.Choose(6) {
		case 0: // reroute the tail
			if n := len(tr.remaining); n > 1 {
				i := t.Range(1, n-1)
				tr.remaining = tr.remaining[:i:i]
				for k := 0; k < t.Range(1, 3); k++ {
					tr.remaining = append(tr.remaining, stopPred{stop: fmt.Sprintf("R%02d%c", k+1, tr.dir), arr: w.Now + int64(600+k*90), dep: w.Now + int64(630+k*90), hasA: true, hasD: true})
				}
				t.Probe("world-reroute-tail")
			}
		case 1: // skip a stop in the middle
			if n := len(tr.remaining); n > 2 {
				i := t.Range(1, n-2)
				tr.remaining = append(tr.remaining[:i:i], tr.remaining[i+1:]...)
				t.Probe("world-skip-middle")
			}
		case 2: // jump backwards: a stop already passed shows up again at the front
			passed := len(tr.line) - len(tr.remaining)
			if passed > 0 {
				s := tr.line[t.Choose(passed)]
				tr.remaining = append([]stopPred{{stop: s, arr: w.Now + 20, dep: w.Now + 40, hasA: true, hasD: true}}, tr.remaining...)
				t.Probe("world-jump-back")
			}
		case 3: // empty list
			tr.remaining = nil
			t.Probe("world-empty")
		case 4: // repeat a stop
			if n := len(tr.remaining); n > 0 {
				s := tr.remaining[t.Choose(n)]
				tr.remaining = append(tr.remaining, s)
				t.Probe("world-repeat-stop")
			}
		case 5: // unknown first stop
			tr.remaining = append([]stopPred{{stop: "Z99" + string(tr.dir), arr: w.Now + 10, dep: w.Now + 20, hasA: true, hasD: true}}, tr.remaining...)
			t.Probe("world-unknown-first")
		}
	}
}

func (w *World) advStop() stopPred {
	t := w.t
	s := advAlphabet[t.Choose(len(advAlphabet))]
	a := w.Now + int64(t.Range(-120, 900))
	sk := 0
	if t.Chance(1, 10) {
		sk = 1 + t.Choose(3)
	}
	return stopPred{skipped: sk, stop: s, arr: a, dep: a + 30, hasA: !t.Chance(1, 4), hasD: !t.Chance(1, 4), track: []string{"", "1", "2", "A3"}[t.Choose(4)]}
}

// Tick advances simulated time and publishes one snapshot.
func (w *World) Tick() *gtfsrt.FeedMessage {
	t := w.t
	dt := int64(t.Range(w.Cfg.TickMin, w.Cfg.TickMax))
	w.Now += dt
	w.pubNow += dt
	if w.Cfg.ClockFaults > 0 && t.Chance(w.Cfg.ClockFaults, 16) {
		switch t.Choose(3) {
		case 0:
			w.pubNow -= int64(t.Range(1, 300))
			t.Fault("clock-jump-back")
		case 1:
			w.pubNow -= dt // stall: same timestamp twice
			t.Fault("clock-stall")
		case 2:
			w.pubNow += int64(t.Range(60, 3600))
			if t.Chance(1, 4) {
				w.pubNow += int64(t.Range(3600, 30000)) // the publisher was down for hours
			}
			t.Fault("clock-jump-forward")
		}
	}
	noTimestamp := w.Cfg.ClockFaults > 0 && t.Chance(1, 24)
	w.tick++
	msg := &gtfsrt.FeedMessage{
		Header: &gtfsrt.FeedHeader{GtfsRealtimeVersion: ps("1.0"), Timestamp: pu64(uint64(w.pubNow))},
	}
	if noTimestamp {
		msg.Header.Timestamp = nil
		t.Fault("clock-missing-timestamp")
	}
	if w.Cfg.Nyct && t.Chance(1, 2) {
		proto.SetExtension(msg.Header, gtfsrt.E_NyctFeedHeader, &gtfsrt.NyctFeedHeader{NyctSubwayVersion: ps("1.0")})
	}
	var ents []*gtfsrt.FeedEntity
	for _, tr := range w.trains {
		if w.tick < tr.bornTick || w.tick > tr.deadTick {
			continue
		}
		w.step(tr)
		if t.Chance(1, 40) {
			// the descriptor's route changes while trip id and start stay the same (the journal carries the last one)
			tr.route = tr.route + "X"
			t.Probe("world-route-relabelled")
		}
		if t.Chance(1, 24) {
			tr.trainID = tr.trainID + "'" // the consist was swapped: same trip, new vehicle id
			t.Probe("world-vehicle-swap")
		}
		if tr.assignAt > 0 && w.tick == tr.assignAt {
			tr.assigned = true
		}
		if w.Cfg.FlapAssign > 0 && t.Chance(w.Cfg.FlapAssign, 16) {
			tr.assigned = !tr.assigned
			t.Probe("world-assign-flap")
		}
		if tr.omitLeft > 0 {
			tr.omitLeft--
			t.Fault("trip-omitted")
			continue
		}
		if w.Cfg.OmitRate > 0 && tr.everSeen && t.Chance(w.Cfg.OmitRate, 16) {
			tr.omitLeft = t.Choose(3)
			t.Fault("trip-omitted")
			continue
		}
		tr.everSeen = true
		ents = append(ents, w.tripEntities(tr)...)
	}
	if w.Cfg.AlertRate > 0 && t.Chance(w.Cfg.AlertRate, 8) {
		ents = append(ents, w.alertEntity())
	}
	if w.Cfg.ShuffleEnts {
		for i := len(ents) - 1; i > 0; i-- {
			j := t.Choose(i + 1)
			ents[i], ents[j] = ents[j], ents[i]
		}
	}
	msg.Entity = ents
	return msg
}

func (w *World) nextEntID() *string {
	w.entSeq++
	return ps(fmt.Sprintf("%06d", w.entSeq))
}

func (w *World) tripDescriptor(tr *train) *gtfsrt.TripDescriptor {
	td := &gtfsrt.TripDescriptor{TripId: ps(tr.id), RouteId: ps(tr.route)}
	if w.Cfg.ExplicitTime {
		td.StartDate = ps(tr.startDate)
		td.StartTime = ps(tr.startTime)
	} else {
		td.StartDate = ps(tr.startDate)
	}
	if w.Cfg.WeirdRate > 0 && w.t.Chance(1, 8) {
		// schedule relationships other than the default: nothing in the journal's contract depends on them
		sr := []gtfsrt.TripDescriptor_ScheduleRelationship{gtfsrt.TripDescriptor_SCHEDULED, gtfsrt.TripDescriptor_ADDED, gtfsrt.TripDescriptor_UNSCHEDULED, gtfsrt.TripDescriptor_CANCELED, gtfsrt.TripDescriptor_REPLACEMENT, gtfsrt.TripDescriptor_DUPLICATED, gtfsrt.TripDescriptor_DELETED}[w.t.Choose(7)]
		td.ScheduleRelationship = &sr
		w.t.Probe("world-trip-schedule-relationship")
	}
	if w.Cfg.Nyct && !tr.noNyct {
		d := gtfsrt.NyctTripDescriptor_NORTH
		if tr.dir == 'S' {
			d = gtfsrt.NyctTripDescriptor_SOUTH
		}
		n := &gtfsrt.NyctTripDescriptor{IsAssigned: pb(tr.assigned), Direction: &d}
		if (tr.assigned && !w.t.Chance(1, 10)) || w.t.Chance(1, 3) {
			n.TrainId = ps(tr.trainID) // an assigned trip occasionally lacks its train id
		}
		proto.SetExtension(td, gtfsrt.E_NyctTripDescriptor, n)
	}
	return td
}

// vehicleDescriptor: usually the id; sometimes a label-only or plate-only descriptor (a vehicle
// whose id string is empty), sometimes id and label.
func (w *World) vehicleDescriptor(tr *train) *gtfsrt.VehicleDescriptor {
	switch w.t.Weighted(10, 2, 1, 2) {
	case 1:
		return &gtfsrt.VehicleDescriptor{Label: ps("L-" + tr.trainID)}
	case 2:
		return &gtfsrt.VehicleDescriptor{LicensePlate: ps("P-" + tr.trainID)}
	case 3:
		return &gtfsrt.VehicleDescriptor{Id: ps(tr.trainID), Label: ps("car " + tr.trainID)}
	}
	return &gtfsrt.VehicleDescriptor{Id: ps(tr.trainID)}
}

func (w *World) tripEntities(tr *train) []*gtfsrt.FeedEntity {
	t := w.t
	tu := &gtfsrt.TripUpdate{Trip: w.tripDescriptor(tr)}
	if (!w.Cfg.Nyct || tr.noNyct) && tr.assigned {
		tu.Vehicle = w.vehicleDescriptor(tr)
	}
	for i, sp := range tr.remaining {
		stu := &gtfsrt.TripUpdate_StopTimeUpdate{StopId: ps(sp.stop)}
		if sp.hasA {
			stu.Arrival = &gtfsrt.TripUpdate_StopTimeEvent{Time: pi64(sp.arr)}
		}
		if sp.hasD {
			stu.Departure = &gtfsrt.TripUpdate_StopTimeEvent{Time: pi64(sp.dep)}
		}
		if t.Chance(1, 6) {
			stu.StopSequence = pu32(uint32(i + 1))
		}
		switch sp.skipped {
		case 1, 2:
			sr := gtfsrt.TripUpdate_StopTimeUpdate_SKIPPED
			stu.ScheduleRelationship = &sr
			if sp.skipped == 2 {
				stu.Arrival, stu.Departure = nil, nil
			}
		case 3:
			sr := gtfsrt.TripUpdate_StopTimeUpdate_NO_DATA
			stu.ScheduleRelationship = &sr
		}
		if w.Cfg.Nyct && sp.track != "" {
			n := &gtfsrt.NyctStopTimeUpdate{ScheduledTrack: ps(sp.track)}
			if t.Chance(1, 3) {
				n.ActualTrack = ps(sp.track + "x")
			}
			proto.SetExtension(stu, gtfsrt.E_NyctStopTimeUpdate, n)
		}
		tu.StopTimeUpdate = append(tu.StopTimeUpdate, stu)
	}
	out := []*gtfsrt.FeedEntity{{Id: w.nextEntID(), TripUpdate: tu}}
	if w.Cfg.VehicleEnts > 0 && t.Chance(w.Cfg.VehicleEnts, 8) {
		vp := &gtfsrt.VehiclePosition{Trip: w.tripDescriptor(tr), Timestamp: pu64(uint64(w.pubNow - 5))}
		if len(tr.remaining) > 0 {
			vp.StopId = ps(tr.remaining[0].stop)
			st := gtfsrt.VehiclePosition_IN_TRANSIT_TO
			vp.CurrentStatus = &st
			vp.CurrentStopSequence = pu32(uint32(len(tr.line) - len(tr.remaining)))
		}
		if (!w.Cfg.Nyct || tr.noNyct) && tr.assigned {
			vp.Vehicle = w.vehicleDescriptor(tr)
		}
		if t.Chance(1, 3) {
			vp.Position = &gtfsrt.Position{Latitude: pf32(40.7), Longitude: pf32(-73.9)}
		}
		out = append(out, &gtfsrt.FeedEntity{Id: w.nextEntID(), Vehicle: vp})
	}
	return out
}

func (w *World) alertEntity() *gtfsrt.FeedEntity {
	t := w.t
	a := &gtfsrt.Alert{
		HeaderText: &gtfsrt.TranslatedString{Translation: []*gtfsrt.TranslatedString_Translation{{Text: ps("Delays"), Language: ps("en")}}},
	}
	// name one of the live trips, with and without a trip id
	if len(w.trains) > 0 {
		tr := w.trains[t.Choose(len(w.trains))]
		if t.Chance(1, 2) {
			a.InformedEntity = append(a.InformedEntity, &gtfsrt.EntitySelector{Trip: w.tripDescriptor(tr)})
		} else {
			a.InformedEntity = append(a.InformedEntity, &gtfsrt.EntitySelector{RouteId: ps(tr.route)})
		}
	}
	return &gtfsrt.FeedEntity{Id: ps(fmt.Sprintf("lmm:alert:%d", w.entSeq)), Alert: a}
}

// ---------------------------------------------------------------------------------------
// Transport between publisher and consumer.

type TransportCfg struct {
	Drop, Dup, Reorder int // out of 16 per message
}

func DrawTransportCfg(t *sim.T) TransportCfg {
	if !t.Chance(1, 3) {
		return TransportCfg{}
	}
	return TransportCfg{Drop: t.Choose(4), Dup: t.Choose(4), Reorder: t.Choose(4)}
}

// Deliver applies the transport faults to a published sequence and returns what the consumer sees.
func Deliver(t *sim.T, cfg TransportCfg, published [][]byte) [][]byte {
	var out [][]byte
	for _, m := range published {
		if cfg.Drop > 0 && t.Chance(cfg.Drop, 16) {
			t.Fault("transport-drop")
			continue
		}
		out = append(out, m)
		if cfg.Dup > 0 && t.Chance(cfg.Dup, 16) {
			t.Fault("transport-duplicate")
			out = append(out, m)
		}
	}
	if cfg.Reorder > 0 {
		for i := 0; i+1 < len(out); i++ {
			if t.Chance(cfg.Reorder, 16) {
				j := i + 1 + t.Choose(min(3, len(out)-i-1))
				out[i], out[j] = out[j], out[i]
				t.Fault("transport-reorder")
			}
		}
	}
	return out
}
