package gen

import (
	"archive/zip"
	"bytes"
	"encoding/csv"
	"fmt"
	"strings"

	"verif/sim"
)

// Table model of a GTFS static feed: the well-formed base every static fault campaign starts from.

type Table struct {
	Name   string
	Header []string
	Rows   [][]string
	// Raw, when non-nil, replaces the rendered CSV (byte-level member faults).
	Raw []byte
}

func (tb *Table) Col(name string) int {
	for i, h := range tb.Header {
		if h == name {
			return i
		}
	}
	return -1
}

func (tb *Table) Clone() *Table {
	c := &Table{Name: tb.Name, Header: append([]string(nil), tb.Header...), Raw: tb.Raw}
	for _, r := range tb.Rows {
		c.Rows = append(c.Rows, append([]string(nil), r...))
	}
	return c
}

type Feed struct {
	Tables []*Table // member order of the archive
}

func (f *Feed) Table(name string) *Table {
	for _, tb := range f.Tables {
		if tb.Name == name {
			return tb
		}
	}
	return nil
}

func (f *Feed) Clone() *Feed {
	c := &Feed{}
	for _, tb := range f.Tables {
		c.Tables = append(c.Tables, tb.Clone())
	}
	return c
}

// CSV renders a table. Rows may have a different number of cells than the header (fault campaigns
// do that on purpose); encoding/csv's writer does not care.
func (tb *Table) CSV(crlf bool, bom bool) []byte {
	if tb.Raw != nil {
		return tb.Raw
	}
	var buf bytes.Buffer
	if bom {
		buf.Write([]byte{0xEF, 0xBB, 0xBF})
	}
	w := csv.NewWriter(&buf)
	w.UseCRLF = crlf
	w.Write(tb.Header)
	for _, r := range tb.Rows {
		w.Write(r)
	}
	w.Flush()
	return buf.Bytes()
}

// csvStyled renders the table with every cell quoted and/or with blank lines between records. The blank
// lines are placed pseudo-randomly but as a pure function of (table index, record index).
func (tb *Table) csvStyled(crlf, bom, quoteAll bool, blank int, salt int) []byte {
	var buf bytes.Buffer
	if bom {
		buf.Write([]byte{0xEF, 0xBB, 0xBF})
	}
	nl := "\n"
	if crlf {
		nl = "\r\n"
	}
	writeRec := func(rec []string) {
		if quoteAll {
			for i, c := range rec {
				if i > 0 {
					buf.WriteByte(',')
				}
				buf.WriteByte('"')
				buf.WriteString(strings.ReplaceAll(c, "\"", "\"\""))
				buf.WriteByte('"')
			}
			buf.WriteString(nl)
			return
		}
		var b2 bytes.Buffer
		w := csv.NewWriter(&b2)
		w.UseCRLF = crlf
		w.Write(rec)
		w.Flush()
		buf.Write(b2.Bytes())
	}
	writeRec(tb.Header)
	for i, r := range tb.Rows {
		if blank > 0 && len(tb.Header) >= 2 && ((i*7+salt*13+3)%8) < blank {
			buf.WriteString(nl)
		}
		writeRec(r)
	}
	return buf.Bytes()
}

type ZipOpts struct {
	Deflate []bool // per table (default store)
	CRLF    bool
	BOM     bool
	// NoFinalNewline: the last row of every member is not terminated
	NoFinalNewline bool
	// BOMs: per table, a UTF-8 byte order mark (BOM, above, marks only the first member)
	BOMs []bool
	// QuoteAll: every cell is written in quotes
	QuoteAll bool
	// BlankLines: empty lines are sprinkled between records (CSV readers skip them)
	BlankLines int // out of 8 per record
	// Comment: the archive comment (stored after the end-of-central-directory record)
	Comment string
}

// Zip serialises the feed.
func (f *Feed) Zip(o ZipOpts) []byte {
	var buf bytes.Buffer
	zw := zip.NewWriter(&buf)
	for i, tb := range f.Tables {
		m := zip.Store
		if i < len(o.Deflate) && o.Deflate[i] {
			m = zip.Deflate
		}
		w, err := zw.CreateHeader(&zip.FileHeader{Name: tb.Name, Method: m})
		if err != nil {
			panic("harness: zip: " + err.Error())
		}
		w.Write(f.MemberBody(i, o))
	}
	if o.Comment != "" {
		zw.SetComment(o.Comment)
	}
	if err := zw.Close(); err != nil {
		panic("harness: zip: " + err.Error())
	}
	return buf.Bytes()
}

// MemberBody is the content of the i-th member as Zip writes it.
func (f *Feed) MemberBody(i int, o ZipOpts) []byte {
	tb := f.Tables[i]
	bom := o.BOM && i == 0
	if i < len(o.BOMs) && o.BOMs[i] {
		bom = true
	}
	body := tb.CSV(o.CRLF, bom)
	if tb.Raw == nil && (o.QuoteAll || o.BlankLines > 0) {
		body = tb.csvStyled(o.CRLF, bom, o.QuoteAll, o.BlankLines, i)
	}
	if o.NoFinalNewline && tb.Raw == nil {
		body = bytes.TrimRight(body, "\r\n")
	}
	return body
}

// ZipRaw builds an archive from raw member contents (used by byte/reader fault campaigns).
func ZipRaw(names []string, contents [][]byte, deflate bool) []byte {
	var buf bytes.Buffer
	zw := zip.NewWriter(&buf)
	for i, n := range names {
		m := zip.Store
		if deflate {
			m = zip.Deflate
		}
		w, err := zw.CreateHeader(&zip.FileHeader{Name: n, Method: m})
		if err != nil {
			panic("harness: zip: " + err.Error())
		}
		w.Write(contents[i])
	}
	zw.Close()
	return buf.Bytes()
}

// ---------------------------------------------------------------------------------------
// generator

type StaticCfg struct {
	Agencies, Routes, Stops, Transfers, Services, DateRows, Shapes, ShapePts, Trips, StopTimesPerTrip, Freqs int
	DistinctDates                                                                                            bool // calendar_dates.txt: every row another date (giant feeds)
	HasCalendar, HasCalendarDates, HasShapes, HasTransfers, HasFreqs                                         bool
	ShuffleCols, ExtraCols, Quoting                                                                          bool
	OptionalCols                                                                                             int  // out of 4: fraction of optional columns present
	Interleave                                                                                               bool // stop_times of different trips interleaved
	BlankAgencyID                                                                                            bool // single agency + routes without agency_id
	IDStyle                                                                                                  int  // 0 prefixed (s0, r1), 1 numeric (101, 102), 2 dictionary words incl. pairs that collide under common 32-bit hashes
	AgencyIDCellBlank                                                                                        bool // with BlankAgencyID: the single agency's own agency_id cell is empty
	DistinctText                                                                                             bool // free-text cells that usually repeat (stop_headsign) are all different
	ShortTimes                                                                                               bool // times before 10:00:00 spelled without the leading zero (7 bytes)
	WideZones                                                                                                bool // agency time zones from the whole IANA list instead of four common ones
	SpecExtras                                                                                               int  // members the GTFS reference defines and the library does not read (feed_info.txt, ...)
}

func DrawStaticCfg(t *sim.T, big bool) StaticCfg {
	huge := big && t.Chance(1, 25) // tables of hundreds to thousands of rows: capacity thresholds (512, 1024, ...)
	lim := func(small, large int) int {
		if huge && t.Chance(1, 2) {
			return t.Range(300, 2600)
		}
		if big && t.Chance(1, 3) {
			return t.Range(0, large)
		}
		return t.Range(0, small)
	}
	c := StaticCfg{
		Agencies:         t.Range(1, 3),
		Routes:           1 + lim(5, 40),
		Stops:            1 + lim(8, 80),
		Transfers:        lim(5, 40),
		Services:         1 + lim(4, 30),
		DateRows:         lim(6, 40),
		Shapes:           lim(3, 20),
		ShapePts:         t.Range(1, 6),
		Trips:            lim(6, 60),
		StopTimesPerTrip: t.Range(0, 6),
		Freqs:            lim(4, 20),
		HasCalendar:      !t.Chance(1, 5),
		HasCalendarDates: !t.Chance(1, 3),
		HasShapes:        !t.Chance(1, 3),
		HasTransfers:     !t.Chance(1, 3),
		HasFreqs:         !t.Chance(1, 3),
		ShuffleCols:      t.Chance(1, 2),
		ExtraCols:        t.Chance(1, 3),
		Quoting:          t.Chance(1, 3),
		OptionalCols:     t.Range(0, 4),
		Interleave:       t.Chance(1, 4),
	}
	if !c.HasCalendar && !c.HasCalendarDates {
		c.HasCalendar = true
	}
	if c.Agencies == 1 {
		c.BlankAgencyID = t.Chance(1, 2)
	}
	c.IDStyle = t.Weighted(12, 4, 2, 1)
	if c.IDStyle == 3 {
		c.IDStyle = 3 + t.Choose(len(idSeps)) // ids that contain a separator character, see sepID
	}
	c.WideZones = t.Chance(1, 4)
	c.ShortTimes = t.Chance(1, 3)
	if t.Chance(1, 6) {
		c.SpecExtras = t.Range(1, 3)
	}
	c.AgencyIDCellBlank = c.BlankAgencyID && t.Chance(1, 3)
	if t.Chance(1, 12) {
		c.StopTimesPerTrip = t.Range(30, 70) // long trips (dozens of stop times each)
	}
	return c
}

// collidingWords: pairs that collide under FNV-1a/32 (costarring/liquid, declinate/macallums, altarage/zinke),
// FNV-1/32 (creamwove/quists), CRC-32 (plumless/buckeroo) and the 31-multiplier string hash (Aa/BB, AaAa/BBBB, AaBB/BBAa).
var collidingWords = []string{"costarring", "liquid", "declinate", "macallums", "altarage", "zinke", "creamwove", "quists", "plumless", "buckeroo", "Aa", "BB", "AaAa", "BBBB", "AaBB", "BBAa"}

// entityID spells the id of the i-th entity of a table according to the feed's id style.
func entityID(style int, prefix string, i int, base int) string {
	switch style {
	case 1:
		return fmt.Sprint(base + i)
	case 2:
		if i < len(collidingWords) {
			return collidingWords[i]
		}
		return fmt.Sprintf("%s%d", collidingWords[i%len(collidingWords)], i)
	}
	if style >= 3 {
		return sepID(idSeps[(style-3)%len(idSeps)], i)
	}
	return fmt.Sprintf("%s%d", prefix, i)
}

// idSeps: characters implementations like to join ids with when they build composite keys. No white space: an id
// with white space at its edge is only distinct from its trimmed form for a parser that does not trim, and whether
// the parser trims is not the business of the properties that use these ids.
var idSeps = []string{"|", ",", ":", "/", "-", "_", "\x00", "", ";", "."}

// sepID spells ids that contain the separator. Every table uses the same fragments, so that two pairs of ids
// from two tables can join to the same text in different ways ("a|b" + "|" + "c" == "a" + "|" + "b|c"): a
// composite key built by joining is ambiguous for them, a composite key built as a struct is not.
func sepID(sep string, i int) string {
	var pats []string
	seen := map[string]bool{}
	for _, p := range []string{"a" + sep + "b", "c", "a", "b" + sep + "c", "a" + sep + "b" + sep + "c", "b", "a" + sep, sep + "c"} {
		if !seen[p] && p != "" {
			seen[p] = true
			pats = append(pats, p)
		}
	}
	s := pats[i%len(pats)]
	if i >= len(pats) {
		s += fmt.Sprint(i / len(pats))
	}
	return s
}

// wideZones: a sample of the IANA database (process-wide caches of loaded locations see many names).
var wideZones = strings.Fields(`Africa/Abidjan Africa/Accra Africa/Algiers Africa/Cairo Africa/Casablanca Africa/Johannesburg Africa/Lagos Africa/Nairobi Africa/Tunis
America/Anchorage America/Argentina/Buenos_Aires America/Bogota America/Caracas America/Chicago America/Denver America/Halifax America/Havana America/Lima
America/Los_Angeles America/Mexico_City America/Montevideo America/Panama America/Phoenix America/Santiago America/Sao_Paulo America/St_Johns America/Toronto America/Vancouver
America/Winnipeg America/Edmonton America/Regina America/Detroit America/Boise America/Juneau America/Guatemala America/Jamaica America/La_Paz America/Asuncion
Asia/Almaty Asia/Baghdad Asia/Baku Asia/Bangkok Asia/Colombo Asia/Dhaka Asia/Dubai Asia/Ho_Chi_Minh Asia/Hong_Kong Asia/Jakarta Asia/Jerusalem Asia/Kabul Asia/Karachi
Asia/Kathmandu Asia/Kolkata Asia/Kuala_Lumpur Asia/Manila Asia/Riyadh Asia/Seoul Asia/Shanghai Asia/Singapore Asia/Taipei Asia/Tashkent Asia/Tehran Asia/Tokyo Asia/Yangon
Atlantic/Azores Atlantic/Reykjavik Australia/Adelaide Australia/Brisbane Australia/Darwin Australia/Lord_Howe Australia/Perth Australia/Sydney
Europe/Amsterdam Europe/Athens Europe/Belgrade Europe/Berlin Europe/Brussels Europe/Bucharest Europe/Budapest Europe/Copenhagen Europe/Dublin Europe/Helsinki
Europe/Istanbul Europe/Kyiv Europe/Lisbon Europe/London Europe/Madrid Europe/Moscow Europe/Oslo Europe/Paris Europe/Prague Europe/Rome Europe/Sofia Europe/Stockholm
Europe/Vienna Europe/Warsaw Europe/Zurich Pacific/Auckland Pacific/Chatham Pacific/Fiji Pacific/Guam Pacific/Honolulu Pacific/Kiritimati Pacific/Tongatapu
Etc/GMT+12 Etc/GMT-14 Etc/UTC UTC GMT EST MST HST CET EET`)

var tzPool = []string{"America/New_York", "UTC", "Europe/Paris", "Asia/Tokyo"}

type colSpec struct {
	name     string
	required bool
}

// finishTable applies optional-column selection, unknown columns and column shuffling. gen produces
// full-width rows in canonical column order; this projects them.
func finishTable(t *sim.T, c StaticCfg, name string, cols []colSpec, rows [][]string) *Table {
	keep := make([]bool, len(cols))
	for i, cs := range cols {
		keep[i] = cs.required || t.Chance(c.OptionalCols, 4)
	}
	var idx []int
	for i := range cols {
		if keep[i] {
			idx = append(idx, i)
		}
	}
	extraAt := -1
	if c.ExtraCols && t.Chance(1, 2) {
		extraAt = t.Choose(len(idx) + 1)
	}
	if c.ShuffleCols {
		for i := len(idx) - 1; i > 0; i-- {
			j := t.Choose(i + 1)
			idx[i], idx[j] = idx[j], idx[i]
		}
	}
	tb := &Table{Name: name}
	for k, i := range idx {
		if k == extraAt {
			tb.Header = append(tb.Header, "x_unknown_col")
		}
		tb.Header = append(tb.Header, cols[i].name)
	}
	if extraAt == len(idx) {
		tb.Header = append(tb.Header, "x_unknown_col")
	}
	for rn, r := range rows {
		var out []string
		for k, i := range idx {
			if k == extraAt {
				out = append(out, fmt.Sprintf("junk%d", rn))
			}
			out = append(out, r[i])
		}
		if extraAt == len(idx) {
			out = append(out, fmt.Sprintf("junk%d", rn))
		}
		tb.Rows = append(tb.Rows, out)
	}
	return tb
}

func (c StaticCfg) spellTime(secs int) string {
	if c.ShortTimes && secs < 36000 {
		return fmt.Sprintf("%d:%02d:%02d", secs/3600, (secs/60)%60, secs%60)
	}
	return gtfsTime(secs)
}

func gtfsTime(secs int) string {
	return fmt.Sprintf("%02d:%02d:%02d", secs/3600, (secs/60)%60, secs%60)
}

func gtfsDate(dayOffset int) string {
	// 2024-01-01 + offset days, computed without the time package's local zone
	y, m, d := 2024, 1, 1
	dim := []int{31, 29, 31, 30, 31, 30, 31, 31, 30, 31, 30, 31}
	for dayOffset > 0 {
		d++
		if d > dim[m-1] {
			d = 1
			m++
			if m > 12 {
				m = 1
				y++
			}
		}
		dayOffset--
	}
	return fmt.Sprintf("%04d%02d%02d", y, m, d)
}

// StaticModel is the generated feed plus the id pools the fault injectors need.
type StaticModel struct {
	Feed       *Feed
	Cfg        StaticCfg
	AgencyIDs  []string
	RouteIDs   []string
	StopIDs    []string
	ServiceIDs []string
	ShapeIDs   []string
	TripIDs    []string
}

func name(t *sim.T, c StaticCfg, base string, i int) string {
	s := fmt.Sprintf("%s %d", base, i)
	if c.Quoting {
		switch t.Choose(6) {
		case 1:
			s = fmt.Sprintf("%s, the \"%d\"th", base, i)
		case 2:
			s = fmt.Sprintf("%s\nline %d", base, i)
		case 3:
			s = fmt.Sprintf(" %s %d ", base, i)
		case 4:
			s = fmt.Sprintf("Caf\xe9 %s %d \x80", base, i) // bytes that are not valid UTF-8 (a Latin-1 export)
		}
	}
	return s
}

// GenStatic draws a well-formed feed: unique non-empty ids, resolvable references, required values
// present and parseable.
func GenStatic(t *sim.T, c StaticCfg) *StaticModel {
	m := &StaticModel{Cfg: c}
	f := &Feed{}
	m.Feed = f
	// agency
	{
		var rows [][]string
		for i := 0; i < c.Agencies; i++ {
			id := entityID(c.IDStyle, "ag", i, 1)
			m.AgencyIDs = append(m.AgencyIDs, id)
			if c.BlankAgencyID && c.AgencyIDCellBlank {
				id = "" // a single agency may leave its id blank; routes then leave agency_id blank too
				m.AgencyIDs[len(m.AgencyIDs)-1] = ""
			}
			rows = append(rows, []string{id, name(t, c, "Agency", i), fmt.Sprintf("http://a%d.example", i), agencyZone(t, c), "en", "555-01" + fmt.Sprint(i), "http://fare.example", "a@example.com"})
		}
		cols := []colSpec{{"agency_id", true}, {"agency_name", true}, {"agency_url", true}, {"agency_timezone", true}, {"agency_lang", false}, {"agency_phone", false}, {"agency_fare_url", false}, {"agency_email", false}}
		f.Tables = append(f.Tables, finishTable(t, c, "agency.txt", cols, rows))
	}
	// routes
	{
		var rows [][]string
		for i := 0; i < c.Routes; i++ {
			id := entityID(c.IDStyle, "r", i, 10)
			m.RouteIDs = append(m.RouteIDs, id)
			ag := m.AgencyIDs[t.Choose(len(m.AgencyIDs))]
			if c.BlankAgencyID {
				ag = ""
			}
			rows = append(rows, []string{id, ag, fmt.Sprintf("%06X", t.Choose(1<<24)), "FFFFFF", fmt.Sprint(i), name(t, c, "Route", i), "desc", fmt.Sprint([]int{0, 1, 2, 3, 4, 5, 6, 7, 11, 12}[t.Choose(10)]), "http://r.example", fmt.Sprint(t.Choose(100)), fmt.Sprint(t.Choose(4)), fmt.Sprint(t.Choose(4))})
		}
		cols := []colSpec{{"route_id", true}, {"agency_id", !c.BlankAgencyID}, {"route_color", false}, {"route_text_color", false}, {"route_short_name", false}, {"route_long_name", false}, {"route_desc", false}, {"route_type", true}, {"route_url", false}, {"route_sort_order", false}, {"continuous_pickup", false}, {"continuous_drop_off", false}}
		f.Tables = append(f.Tables, finishTable(t, c, "routes.txt", cols, rows))
	}
	// stops: a forest. stop i may have a parent among stops with smaller OR larger index (acyclic by depth levels)
	{
		var rows [][]string
		depth := make([]int, c.Stops)
		for i := 0; i < c.Stops; i++ {
			id := entityID(c.IDStyle, "s", i, 101)
			m.StopIDs = append(m.StopIDs, id)
		}
		// choose depth: 0 = root (station), 1 = platform, 2 = boarding area
		for i := range depth {
			depth[i] = t.Weighted(3, 4, 1)
		}
		var byDepth [3][]int
		for j := range depth {
			byDepth[depth[j]] = append(byDepth[depth[j]], j)
		}
		for i := 0; i < c.Stops; i++ {
			parent := ""
			if depth[i] > 0 {
				// some stop with depth-1
				cands := byDepth[depth[i]-1]
				if len(cands) > 0 {
					parent = m.StopIDs[cands[t.Choose(len(cands))]]
				}
			}
			locType := ""
			switch depth[i] {
			case 0:
				locType = "1"
			case 1:
				locType = "0"
			case 2:
				locType = "4"
			}
			if parent == "" && depth[i] > 0 {
				locType = "0"
			}
			rows = append(rows, []string{m.StopIDs[i], fmt.Sprintf("c%d", i), name(t, c, "Stop", i), "desc", "z1", fmt.Sprintf("%.5f", -73.9+float64(i)*0.001), fmt.Sprintf("%.5f", 40.7+float64(i)*0.001), "http://s.example", locType, tzPool[t.Choose(len(tzPool))], fmt.Sprint(t.Choose(3)), fmt.Sprint(1 + t.Choose(4)), parent})
		}
		cols := []colSpec{{"stop_id", true}, {"stop_code", false}, {"stop_name", false}, {"stop_desc", false}, {"zone_id", false}, {"stop_lon", false}, {"stop_lat", false}, {"stop_url", false}, {"location_type", false}, {"stop_timezone", false}, {"wheelchair_boarding", false}, {"platform_code", false}, {"parent_station", t.Chance(3, 4)}}
		f.Tables = append(f.Tables, finishTable(t, c, "stops.txt", cols, rows))
	}
	if c.HasTransfers {
		var rows [][]string
		for i := 0; i < c.Transfers && c.Stops >= 2; i++ {
			a := t.Choose(c.Stops)
			b := t.Choose(c.Stops - 1)
			if b >= a {
				b++
			}
			rows = append(rows, []string{m.StopIDs[a], m.StopIDs[b], fmt.Sprint(t.Choose(6)), fmt.Sprint(t.Choose(600))}) // transfer_type 0-5 (4, 5: in-seat transfers of the current GTFS reference)
		}
		cols := []colSpec{{"from_stop_id", true}, {"to_stop_id", true}, {"transfer_type", false}, {"min_transfer_time", false}}
		f.Tables = append(f.Tables, finishTable(t, c, "transfers.txt", cols, rows))
	}
	// services
	nCal := c.Services
	if !c.HasCalendar {
		nCal = 0
	}
	for i := 0; i < c.Services; i++ {
		m.ServiceIDs = append(m.ServiceIDs, entityID(c.IDStyle, "svc", i, 1))
	}
	if c.HasCalendar {
		var rows [][]string
		for i := 0; i < nCal; i++ {
			bit := func() string { return fmt.Sprint(t.Choose(2)) }
			s := t.Choose(300)
			rows = append(rows, []string{m.ServiceIDs[i], bit(), bit(), bit(), bit(), bit(), bit(), bit(), gtfsDate(s), gtfsDate(s + t.Choose(60))})
		}
		cols := []colSpec{{"service_id", true}, {"monday", true}, {"tuesday", true}, {"wednesday", true}, {"thursday", true}, {"friday", true}, {"saturday", true}, {"sunday", true}, {"start_date", true}, {"end_date", true}}
		f.Tables = append(f.Tables, finishTable(t, c, "calendar.txt", cols, rows))
	}
	if c.HasCalendarDates {
		var rows [][]string
		if !c.HasCalendar {
			// every service must exist through calendar_dates
			for i := 0; i < c.Services; i++ {
				rows = append(rows, []string{m.ServiceIDs[i], gtfsDate(t.Choose(360)), fmt.Sprint(1 + t.Choose(2))})
			}
		}
		if c.DistinctDates {
			// every row another date (consecutive days from 2024-01-01 on, Gregorian rules): more than 2^16 of them
			y, mo, d := 2024, 1, 1
			for i := 0; i < c.DateRows; i++ {
				rows = append(rows, []string{m.ServiceIDs[t.Choose(len(m.ServiceIDs))], fmt.Sprintf("%04d%02d%02d", y, mo, d), fmt.Sprint(1 + t.Choose(2))})
				dim := []int{31, 28, 31, 30, 31, 30, 31, 31, 30, 31, 30, 31}[mo-1]
				if mo == 2 && y%4 == 0 && (y%100 != 0 || y%400 == 0) {
					dim = 29
				}
				if d++; d > dim {
					d = 1
					if mo++; mo > 12 {
						mo = 1
						y++
					}
				}
			}
		} else {
			for i := 0; i < c.DateRows; i++ {
				rows = append(rows, []string{m.ServiceIDs[t.Choose(len(m.ServiceIDs))], gtfsDate(t.Choose(360)), fmt.Sprint(1 + t.Choose(2))})
			}
		}
		cols := []colSpec{{"service_id", true}, {"date", true}, {"exception_type", true}}
		f.Tables = append(f.Tables, finishTable(t, c, "calendar_dates.txt", cols, rows))
	}
	if c.HasShapes {
		var rows [][]string
		for i := 0; i < c.Shapes; i++ {
			id := entityID(c.IDStyle, "sh", i, 5000)
			m.ShapeIDs = append(m.ShapeIDs, id)
		}
		// points of different shapes interleaved, sequences not in row order
		type pt struct {
			shape string
			seq   int
		}
		var pts []pt
		for _, id := range m.ShapeIDs {
			n := 1 + t.Choose(c.ShapePts)
			for k := 0; k < n; k++ {
				pts = append(pts, pt{id, (k + 1) * 10})
			}
		}
		for i := len(pts) - 1; i > 0; i-- {
			j := t.Choose(i + 1)
			pts[i], pts[j] = pts[j], pts[i]
		}
		for i, p := range pts {
			rows = append(rows, []string{p.shape, fmt.Sprintf("%.4f", 40.0+float64(i)*0.01), fmt.Sprintf("%.4f", -74.0+float64(i)*0.01), fmt.Sprint(p.seq), fmt.Sprintf("%.1f", float64(p.seq)*1.5)})
		}
		cols := []colSpec{{"shape_id", true}, {"shape_pt_lat", true}, {"shape_pt_lon", true}, {"shape_pt_sequence", true}, {"shape_dist_traveled", false}}
		f.Tables = append(f.Tables, finishTable(t, c, "shapes.txt", cols, rows))
	}
	// trips
	{
		var rows [][]string
		for i := 0; i < c.Trips; i++ {
			id := entityID(c.IDStyle, "t", i, 70000)
			m.TripIDs = append(m.TripIDs, id)
			shape := ""
			if len(m.ShapeIDs) > 0 && t.Chance(2, 3) {
				shape = m.ShapeIDs[t.Choose(len(m.ShapeIDs))]
			}
			rows = append(rows, []string{m.RouteIDs[t.Choose(len(m.RouteIDs))], m.ServiceIDs[t.Choose(len(m.ServiceIDs))], id, name(t, c, "Headsign", i), fmt.Sprint(i), fmt.Sprint(t.Choose(2)), fmt.Sprintf("b%d", i%3), fmt.Sprint(t.Choose(3)), fmt.Sprint(t.Choose(3)), shape})
		}
		cols := []colSpec{{"route_id", true}, {"service_id", true}, {"trip_id", true}, {"trip_headsign", false}, {"trip_short_name", false}, {"direction_id", false}, {"block_id", false}, {"wheelchair_accessible", false}, {"bikes_allowed", false}, {"shape_id", false}}
		f.Tables = append(f.Tables, finishTable(t, c, "trips.txt", cols, rows))
	}
	if c.HasFreqs {
		var rows [][]string
		for i := 0; i < c.Freqs && len(m.TripIDs) > 0; i++ {
			s := t.Choose(80000)
			rows = append(rows, []string{m.TripIDs[t.Choose(len(m.TripIDs))], gtfsTime(s), gtfsTime(s + 3600), fmt.Sprint(60 * (1 + t.Choose(30))), fmt.Sprint(t.Choose(2))})
		}
		cols := []colSpec{{"trip_id", true}, {"start_time", true}, {"end_time", true}, {"headway_secs", true}, {"exact_times", false}}
		f.Tables = append(f.Tables, finishTable(t, c, "frequencies.txt", cols, rows))
	}
	// stop_times
	{
		var rows [][]string
		for i, trip := range m.TripIDs {
			n := c.StopTimesPerTrip
			if n > 0 {
				n = t.Range(0, n)
			}
			base := 20000 + i*300
			for k := 0; k < n; k++ {
				a := base + k*180 + t.Choose(60)
				hs := "hs"
				if c.DistinctText {
					hs = fmt.Sprintf("hs %d/%d", i, k)
				}
				rows = append(rows, []string{trip, c.spellTime(a), c.spellTime(a + 30), m.StopIDs[t.Choose(len(m.StopIDs))], fmt.Sprint((k + 1) * 5), hs, fmt.Sprint(t.Choose(4)), fmt.Sprint(t.Choose(4)), fmt.Sprint(t.Choose(4)), fmt.Sprint(t.Choose(4)), fmt.Sprintf("%.1f", float64(k)*1.25), fmt.Sprint(t.Choose(2))})
			}
		}
		if c.Interleave {
			for i := len(rows) - 1; i > 0; i-- {
				j := t.Choose(i + 1)
				rows[i], rows[j] = rows[j], rows[i]
			}
		}
		cols := []colSpec{{"trip_id", true}, {"arrival_time", true}, {"departure_time", true}, {"stop_id", true}, {"stop_sequence", true}, {"stop_headsign", false}, {"pickup_type", false}, {"drop_off_type", false}, {"continuous_pickup", false}, {"continuous_drop_off", false}, {"shape_dist_traveled", false}, {"timepoint", false}}
		f.Tables = append(f.Tables, finishTable(t, c, "stop_times.txt", cols, rows))
	}
	// members the GTFS reference defines and the library has no use for: header only, well-formed rows, rows
	// with required values missing
	for k := 0; k < c.SpecExtras; k++ {
		sp := specExtras[t.Choose(len(specExtras))]
		if f.Table(sp.name) != nil {
			continue
		}
		var cols []colSpec
		for i, cn := range sp.cols {
			cols = append(cols, colSpec{cn, i < sp.required})
		}
		var rows [][]string
		for r := t.Weighted(3, 2, 2, 1); r > 0; r-- {
			row := make([]string, len(cols))
			for i := range row {
				row[i] = fmt.Sprintf("v%d", t.Choose(4))
				if t.Chance(1, 4) {
					row[i] = ""
				}
			}
			rows = append(rows, row)
		}
		f.Tables = append(f.Tables, finishTable(t, c, sp.name, cols, rows))
	}
	// member order
	if t.Chance(1, 2) {
		for i := len(f.Tables) - 1; i > 0; i-- {
			j := t.Choose(i + 1)
			f.Tables[i], f.Tables[j] = f.Tables[j], f.Tables[i]
		}
	}
	return m
}

func DrawZipOpts(t *sim.T, n int) ZipOpts {
	o := ZipOpts{CRLF: t.Chance(1, 4), BOM: t.Chance(1, 6), NoFinalNewline: t.Chance(1, 4), QuoteAll: t.Chance(1, 8)}
	if t.Chance(1, 8) {
		o.BlankLines = t.Range(1, 4)
	}
	if t.Chance(1, 6) {
		for i := 0; i < n; i++ {
			o.BOMs = append(o.BOMs, t.Chance(1, 2))
		}
	}
	if t.Chance(1, 6) {
		o.Comment = "feed exported " + strings.Repeat("x", t.Choose(60))
	}
	mode := t.Choose(3) // all store, all deflate, mixed
	for i := 0; i < n; i++ {
		switch mode {
		case 0:
			o.Deflate = append(o.Deflate, false)
		case 1:
			o.Deflate = append(o.Deflate, true)
		default:
			o.Deflate = append(o.Deflate, t.Chance(1, 2))
		}
	}
	return o
}

func (m *StaticModel) Summary() string {
	var parts []string
	for _, tb := range m.Feed.Tables {
		parts = append(parts, fmt.Sprintf("%s:%dx%d", strings.TrimSuffix(tb.Name, ".txt"), len(tb.Rows), len(tb.Header)))
	}
	return strings.Join(parts, " ")
}

// GiantStaticCfg is a feed far beyond the usual sizes (tens of thousands of shape points and stop times):
// thresholds at which implementations switch algorithms (parallel paths, batching). Thorough tier only.
func GiantStaticCfg(t *sim.T) StaticCfg {
	c := DrawStaticCfg(t, false)
	c.Stops = 400 + t.Choose(400)
	c.Trips = 5000 + t.Choose(3000)
	c.StopTimesPerTrip = 9 // about 5 per trip on average -> 25-40 thousand rows
	c.HasShapes = true
	c.Shapes = 9000 + t.Choose(4000)
	c.ShapePts = 16 // about 8.5 per shape -> 75-110 thousand rows
	c.Quoting = false
	return c
}

// GiantDistinctCfg is a feed with more than 2^16 different free-text values (one head sign per trip and per
// stop time): capacity thresholds of process-wide tables (interning, memoisation) that no ordinary feed and
// no ordinary worker lifetime reaches. Thorough tier only.
func GiantDistinctCfg(t *sim.T) StaticCfg {
	c := DrawStaticCfg(t, false)
	c.Stops = 200 + t.Choose(200)
	c.Trips = 9000 + t.Choose(2000)
	c.StopTimesPerTrip = 16 // about 8 per trip on average -> 70-90 thousand rows
	c.HasShapes = false
	c.Quoting = false
	c.OptionalCols = 4
	c.DistinctText = true
	// ... and more than 2^16 different service dates (190 years of consecutive days)
	c.HasCalendarDates = true
	c.DistinctDates = true
	c.DateRows = 67000 + t.Choose(6000)
	return c
}

// oddZones: agency_timezone values that are not IANA names but occur in the wild (fixed offsets in several
// spellings, abbreviations, unknown names, blank). The library falls back to UTC for what it cannot load.
var oddZones = []string{"UTC+5:30", "GMT-330", "UTC+5", "UTC+05", "UTC+0530", "UTC+05:30", "UTC-1:00", "GMT+2", "PST", "CEST", "Mars/Olympus_Mons", "+01:00", "Z", "utc", "America/new_york", "../UTC"}

func agencyZone(t *sim.T, c StaticCfg) string {
	if t.Chance(1, 10) {
		return oddZones[t.Choose(len(oddZones))]
	}
	if c.WideZones {
		return wideZones[t.Choose(len(wideZones))]
	}
	return tzPool[t.Choose(len(tzPool))]
}

// specExtras: files of the GTFS reference that ParseStatic does not read (the first `required` columns are the
// required ones).
var specExtras = []struct {
	name     string
	cols     []string
	required int
}{
	{"feed_info.txt", []string{"feed_publisher_name", "feed_publisher_url", "feed_lang", "default_lang", "feed_start_date", "feed_end_date", "feed_version", "feed_contact_email", "feed_contact_url"}, 3},
	{"fare_attributes.txt", []string{"fare_id", "price", "currency_type", "payment_method", "transfers", "agency_id", "transfer_duration"}, 5},
	{"fare_rules.txt", []string{"fare_id", "route_id", "origin_id", "destination_id", "contains_id"}, 1},
	{"levels.txt", []string{"level_id", "level_index", "level_name"}, 2},
	{"pathways.txt", []string{"pathway_id", "from_stop_id", "to_stop_id", "pathway_mode", "is_bidirectional", "length", "traversal_time", "stair_count", "max_slope", "min_width", "signposted_as", "reversed_signposted_as"}, 5},
	{"translations.txt", []string{"table_name", "field_name", "language", "translation", "record_id", "record_sub_id", "field_value"}, 4},
	{"attributions.txt", []string{"organization_name", "attribution_id", "agency_id", "route_id", "trip_id", "is_producer", "is_operator", "is_authority", "attribution_url", "attribution_email", "attribution_phone"}, 1},
	{"areas.txt", []string{"area_id", "area_name"}, 1},
	{"stop_areas.txt", []string{"area_id", "stop_id"}, 2},
	{"networks.txt", []string{"network_id", "network_name"}, 1},
	{"route_networks.txt", []string{"network_id", "route_id"}, 2},
	{"timeframes.txt", []string{"timeframe_group_id", "start_time", "end_time", "service_id"}, 2},
	{"fare_media.txt", []string{"fare_media_id", "fare_media_type", "fare_media_name"}, 2},
	{"fare_products.txt", []string{"fare_product_id", "amount", "currency", "fare_product_name", "fare_media_id"}, 3},
	{"booking_rules.txt", []string{"booking_rule_id", "booking_type", "prior_notice_duration_min", "message", "phone_number", "info_url"}, 2},
	{"location_groups.txt", []string{"location_group_id", "location_group_name"}, 1},
}
