package gen

import (
	"encoding/binary"
	"fmt"

	"verif/sim"
)

// Byte-level faults on stored data (a zip archive or a protobuf message).

func MutateBytes(t *sim.T, b []byte, other []byte) ([]byte, string) {
	if len(b) == 0 {
		return b, ""
	}
	out := append([]byte(nil), b...)
	switch t.Choose(7) {
	case 0:
		n := t.Choose(len(out))
		return out[:n], fmt.Sprintf("truncate at %d/%d", n, len(b))
	case 1:
		k := t.Range(1, 4)
		for i := 0; i < k; i++ {
			out[t.Choose(len(out))] ^= byte(1 << t.Choose(8))
		}
		return out, fmt.Sprintf("flip %d bits", k)
	case 2:
		a := t.Choose(len(out))
		n := t.Range(1, 16)
		for i := a; i < a+n && i < len(out); i++ {
			out[i] = 0
		}
		return out, fmt.Sprintf("zero %d bytes at %d", n, a)
	case 3:
		a := t.Choose(len(out))
		n := t.Range(1, 32)
		if a+n > len(out) {
			n = len(out) - a
		}
		blk := append([]byte(nil), out[a:a+n]...)
		out = append(out[:a+n:a+n], append(blk, b[a+n:]...)...)
		return out, fmt.Sprintf("duplicate block [%d,%d)", a, a+n)
	case 4:
		a := t.Choose(len(out))
		n := t.Range(1, 32)
		if a+n > len(out) {
			n = len(out) - a
		}
		out = append(out[:a:a], b[a+n:]...)
		return out, fmt.Sprintf("drop block [%d,%d)", a, a+n)
	case 5:
		if len(other) == 0 {
			return out, ""
		}
		a := t.Choose(len(out))
		c := t.Choose(len(other))
		out = append(out[:a:a], other[c:]...)
		return out, fmt.Sprintf("splice at %d with other input from %d", a, c)
	default:
		a := t.Choose(len(out))
		out[a] = byte(t.Choose(256))
		return out, fmt.Sprintf("set byte %d", a)
	}
}

// TearZipMember shrinks the sizes of one *stored* member in the central directory and local header so
// that reading it ends early: the row loop consumes the first k bytes, then the zip layer reports a
// checksum error at Close. Returns nil if no stored member was found.
func TearZipMember(t *sim.T, z []byte) ([]byte, string) {
	out := append([]byte(nil), z...)
	// walk the central directory
	eocd := -1
	for i := len(out) - 22; i >= 0; i-- {
		if binary.LittleEndian.Uint32(out[i:]) == 0x06054b50 {
			eocd = i
			break
		}
	}
	if eocd < 0 {
		return nil, ""
	}
	n := int(binary.LittleEndian.Uint16(out[eocd+10:]))
	off := int(binary.LittleEndian.Uint32(out[eocd+16:]))
	type ent struct{ cd, local, size int }
	var stored []ent
	p := off
	for i := 0; i < n && p+46 <= len(out); i++ {
		if binary.LittleEndian.Uint32(out[p:]) != 0x02014b50 {
			break
		}
		method := binary.LittleEndian.Uint16(out[p+10:])
		csize := int(binary.LittleEndian.Uint32(out[p+20:]))
		nl := int(binary.LittleEndian.Uint16(out[p+28:]))
		el := int(binary.LittleEndian.Uint16(out[p+30:]))
		cl := int(binary.LittleEndian.Uint16(out[p+32:]))
		lo := int(binary.LittleEndian.Uint32(out[p+42:]))
		if method == 0 && csize > 1 {
			stored = append(stored, ent{p, lo, csize})
		}
		p += 46 + nl + el + cl
	}
	if len(stored) == 0 {
		return nil, ""
	}
	e := stored[t.Choose(len(stored))]
	k := t.Range(1, e.size-1)
	binary.LittleEndian.PutUint32(out[e.cd+20:], uint32(k))
	binary.LittleEndian.PutUint32(out[e.cd+24:], uint32(k))
	return out, fmt.Sprintf("stored member torn after %d of %d bytes", k, e.size)
}

// ZipHeaderFault flips a field of a zip header (method, flags, crc).
func ZipHeaderFault(t *sim.T, z []byte) ([]byte, string) {
	out := append([]byte(nil), z...)
	var cds []int
	for i := 0; i+46 <= len(out); i++ {
		if binary.LittleEndian.Uint32(out[i:]) == 0x02014b50 {
			cds = append(cds, i)
		}
	}
	if len(cds) == 0 {
		return nil, ""
	}
	p := cds[t.Choose(len(cds))]
	switch t.Choose(4) {
	case 0:
		binary.LittleEndian.PutUint16(out[p+10:], uint16([]int{1, 9, 12, 14, 99}[t.Choose(5)]))
		return out, "unsupported compression method"
	case 1:
		out[p+16] ^= 0xff
		return out, "wrong CRC"
	case 2:
		out[p+8] |= 1
		return out, "encrypted flag"
	default:
		binary.LittleEndian.PutUint32(out[p+24:], uint32(t.Choose(1<<20)))
		return out, "wrong uncompressed size"
	}
}
