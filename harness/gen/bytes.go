package gen

import (
	"archive/zip"
	"bytes"
	"encoding/binary"
	"fmt"
	"hash/crc32"

	"google.golang.org/protobuf/encoding/protowire"

	"verif/sim"
)

// Byte-level faults on stored data (a zip archive or a protobuf message).

func MutateBytes(t *sim.T, b []byte, other []byte) ([]byte, string) {
	if len(b) == 0 {
		return b, ""
	}
	out := append([]byte(nil), b...)
	switch t.Choose(7) {
	case 0:
		n := t.Choose(len(out))
		return out[:n], fmt.Sprintf("truncate at %d/%d", n, len(b))
	case 1:
		k := t.Range(1, 4)
		for i := 0; i < k; i++ {
			out[t.Choose(len(out))] ^= byte(1 << t.Choose(8))
		}
		return out, fmt.Sprintf("flip %d bits", k)
	case 2:
		a := t.Choose(len(out))
		n := t.Range(1, 16)
		for i := a; i < a+n && i < len(out); i++ {
			out[i] = 0
		}
		return out, fmt.Sprintf("zero %d bytes at %d", n, a)
	case 3:
		a := t.Choose(len(out))
		n := t.Range(1, 32)
		if a+n > len(out) {
			n = len(out) - a
		}
		blk := append([]byte(nil), out[a:a+n]...)
		out = append(out[:a+n:a+n], append(blk, b[a+n:]...)...)
		return out, fmt.Sprintf("duplicate block [%d,%d)", a, a+n)
	case 4:
		a := t.Choose(len(out))
		n := t.Range(1, 32)
		if a+n > len(out) {
			n = len(out) - a
		}
		out = append(out[:a:a], b[a+n:]...)
		return out, fmt.Sprintf("drop block [%d,%d)", a, a+n)
	case 5:
		if len(other) == 0 {
			return out, ""
		}
		a := t.Choose(len(out))
		c := t.Choose(len(other))
		out = append(out[:a:a], other[c:]...)
		return out, fmt.Sprintf("splice at %d with other input from %d", a, c)
	default:
		a := t.Choose(len(out))
		out[a] = byte(t.Choose(256))
		return out, fmt.Sprintf("set byte %d", a)
	}
}

// TearZipMember shrinks the sizes of one *stored* member in the central directory and local header so
// that reading it ends early: the row loop consumes the first k bytes, then the zip layer reports a
// checksum error at Close. Returns nil if no stored member was found.
func TearZipMember(t *sim.T, z []byte) ([]byte, string) {
	out := append([]byte(nil), z...)
	// walk the central directory
	eocd := -1
	for i := len(out) - 22; i >= 0; i-- {
		if binary.LittleEndian.Uint32(out[i:]) == 0x06054b50 {
			eocd = i
			break
		}
	}
	if eocd < 0 {
		return nil, ""
	}
	n := int(binary.LittleEndian.Uint16(out[eocd+10:]))
	off := int(binary.LittleEndian.Uint32(out[eocd+16:]))
	type ent struct{ cd, local, size int }
	var stored []ent
	p := off
	for i := 0; i < n && p+46 <= len(out); i++ {
		if binary.LittleEndian.Uint32(out[p:]) != 0x02014b50 {
			break
		}
		method := binary.LittleEndian.Uint16(out[p+10:])
		csize := int(binary.LittleEndian.Uint32(out[p+20:]))
		nl := int(binary.LittleEndian.Uint16(out[p+28:]))
		el := int(binary.LittleEndian.Uint16(out[p+30:]))
		cl := int(binary.LittleEndian.Uint16(out[p+32:]))
		lo := int(binary.LittleEndian.Uint32(out[p+42:]))
		if method == 0 && csize > 1 {
			stored = append(stored, ent{p, lo, csize})
		}
		p += 46 + nl + el + cl
	}
	if len(stored) == 0 {
		return nil, ""
	}
	e := stored[t.Choose(len(stored))]
	k := t.Range(1, e.size-1)
	binary.LittleEndian.PutUint32(out[e.cd+20:], uint32(k))
	binary.LittleEndian.PutUint32(out[e.cd+24:], uint32(k))
	return out, fmt.Sprintf("stored member torn after %d of %d bytes", k, e.size)
}

// ZipHeaderFault flips a field of a zip header (method, flags, crc).
func ZipHeaderFault(t *sim.T, z []byte) ([]byte, string) {
	out := append([]byte(nil), z...)
	var cds []int
	for i := 0; i+46 <= len(out); i++ {
		if binary.LittleEndian.Uint32(out[i:]) == 0x02014b50 {
			cds = append(cds, i)
		}
	}
	if len(cds) == 0 {
		return nil, ""
	}
	p := cds[t.Choose(len(cds))]
	switch t.Choose(4) {
	case 0:
		binary.LittleEndian.PutUint16(out[p+10:], uint16([]int{1, 9, 12, 14, 99}[t.Choose(5)]))
		return out, "unsupported compression method"
	case 1:
		out[p+16] ^= 0xff
		return out, "wrong CRC"
	case 2:
		out[p+8] |= 1
		return out, "encrypted flag"
	default:
		binary.LittleEndian.PutUint32(out[p+24:], uint32(t.Choose(1<<20)))
		return out, "wrong uncompressed size"
	}
}

// ZipForgedSizes builds the archive with one member whose declared sizes lie (a central directory
// entry and local header written with CreateRaw): uncompressed sizes of 2^63, 2^62, 2^40, 2^32+5, one
// more or one less than the truth, or zero. Members are stored.
func ZipForgedSizes(t *sim.T, f *Feed, o ZipOpts) ([]byte, string) {
	if len(f.Tables) == 0 {
		return nil, ""
	}
	victim := t.Choose(len(f.Tables))
	var buf bytes.Buffer
	zw := zip.NewWriter(&buf)
	desc := ""
	for i, tb := range f.Tables {
		body := tb.CSV(o.CRLF, o.BOM && i == 0)
		if i != victim {
			w, err := zw.CreateHeader(&zip.FileHeader{Name: tb.Name, Method: zip.Store})
			if err != nil {
				panic("harness: zip: " + err.Error())
			}
			w.Write(body)
			continue
		}
		truth := uint64(len(body))
		lie := []uint64{1 << 63, 1 << 62, 1 << 40, 1<<32 + 5, truth + 1, truth - 1, 0, ^uint64(0)}[t.Choose(8)]
		if truth == 0 && lie == truth-1 {
			lie = 7
		}
		h := &zip.FileHeader{Name: tb.Name, Method: zip.Store, CRC32: crc32.ChecksumIEEE(body), CompressedSize64: truth, UncompressedSize64: lie}
		w, err := zw.CreateRaw(h)
		if err != nil {
			panic("harness: zip: " + err.Error())
		}
		w.Write(body)
		desc = fmt.Sprintf("%s declares an uncompressed size of %d bytes (really %d)", tb.Name, lie, truth)
	}
	zw.Close()
	return buf.Bytes(), desc
}

// ReorderWire re-serialises the top-level fields of a protobuf message in another order (entities
// keep their relative order), optionally prepending an unknown field or writing a tag as an over-long
// varint. The result is a different byte string for the same message: a non-canonical presentation.
func ReorderWire(t *sim.T, b []byte) ([]byte, string) {
	type fld struct {
		num protowire.Number
		raw []byte
	}
	var fields []fld
	rest := b
	for len(rest) > 0 {
		num, typ, n := protowire.ConsumeTag(rest)
		if n < 0 {
			return b, ""
		}
		m := protowire.ConsumeFieldValue(num, typ, rest[n:])
		if m < 0 {
			return b, ""
		}
		fields = append(fields, fld{num, rest[:n+m]})
		rest = rest[n+m:]
	}
	if len(fields) == 0 {
		return b, ""
	}
	var out []byte
	desc := ""
	switch t.Choose(5) {
	case 4: // an unknown zero-valued field at the very end: the message's last byte is 0x00
		out = append([]byte(nil), b...)
		out = protowire.AppendTag(out, 1998, protowire.VarintType)
		out = protowire.AppendVarint(out, 0)
		desc = "unknown zero-valued field last (the file ends in a zero byte)"
	case 0: // header (and every non-entity field) last
		for _, f := range fields {
			if f.num == 2 {
				out = append(out, f.raw...)
			}
		}
		for _, f := range fields {
			if f.num != 2 {
				out = append(out, f.raw...)
			}
		}
		desc = "entities before the header"
	case 1: // header in the middle
		k := 0
		for _, f := range fields {
			if f.num == 2 {
				k++
			}
		}
		at := 0
		if k > 0 {
			at = 1 + t.Choose(k)
		}
		seen := 0
		for _, f := range fields {
			if f.num == 2 {
				out = append(out, f.raw...)
				seen++
				if seen == at {
					for _, g := range fields {
						if g.num != 2 {
							out = append(out, g.raw...)
						}
					}
				}
			}
		}
		if k == 0 {
			out = append([]byte(nil), b...)
		}
		desc = "header between entities"
	case 2: // unknown field first
		out = protowire.AppendTag(nil, 1999, protowire.VarintType)
		out = protowire.AppendVarint(out, 42)
		out = append(out, b...)
		desc = "unknown field before the header"
	default: // first tag as an over-long varint (0x8a 0x00 == 0x0a)
		if len(b) > 0 && b[0] < 0x80 {
			out = append([]byte{b[0] | 0x80, 0x00}, b[1:]...)
			desc = "first tag written as a two-byte varint"
		} else {
			out = append([]byte(nil), b...)
		}
	}
	return out, desc
}

// ---------------------------------------------------------------------------------------
// CRC-32 forging: a second content with the same length and the same CRC-32 (the pair of values a zip
// directory records for a member, and what "content addressed" caches are tempted to use as their key).

var crcRev = func() (rev [256]byte) {
	for i, v := range crc32.IEEETable {
		rev[v>>24] = byte(i)
	}
	return
}()

// forgeCRC overwrites b[pos:pos+4] so that the CRC-32 (IEEE) of b becomes target.
func forgeCRC(b []byte, pos int, target uint32) bool {
	if pos < 0 || pos+4 > len(b) {
		return false
	}
	tab := crc32.IEEETable
	c0 := ^uint32(0)
	for _, x := range b[:pos] {
		c0 = tab[byte(c0)^x] ^ (c0 >> 8)
	}
	// the register wanted after the four patch bytes: run the suffix backwards from the final register
	c := ^target
	for i := len(b) - 1; i >= pos+4; i-- {
		idx := crcRev[c>>24]
		c = ((c ^ tab[idx]) << 8) | uint32(idx^b[i])
	}
	// four more steps backwards over zero bytes give the register r with update(r, 0000) = c; processing
	// bytes X from register c0 is the same as processing X xor c0 from register 0
	r := c
	for i := 0; i < 4; i++ {
		idx := crcRev[r>>24]
		r = ((r ^ tab[idx]) << 8) | uint32(idx)
	}
	x := r ^ c0
	b[pos], b[pos+1], b[pos+2], b[pos+3] = byte(x), byte(x>>8), byte(x>>16), byte(x>>24)
	return crc32.ChecksumIEEE(b) == target
}

// ForgeCRCSibling returns a clone of the feed in which one member has other content of the same length and
// the same CRC-32 as in f (one digit of a data row changed, four bytes elsewhere in the data rows solved for;
// the solved bytes never contain a quote, a comma or a line break, so the record structure stays as it was).
func ForgeCRCSibling(t *sim.T, f *Feed, o ZipOpts) (*Feed, string) {
	var cands []int
	for i, tb := range f.Tables {
		if tb.Raw == nil && len(tb.Rows) >= 2 {
			cands = append(cands, i)
		}
	}
	if len(cands) == 0 {
		return nil, ""
	}
	ti := cands[t.Choose(len(cands))]
	a := f.MemberBody(ti, o)
	target := crc32.ChecksumIEEE(a)
	// data region: after the first line break
	start := bytes.IndexByte(a, '\n') + 1
	if start <= 0 || len(a)-start < 12 {
		return nil, ""
	}
	var digits []int
	for i := start; i < len(a); i++ {
		if a[i] >= '0' && a[i] <= '9' {
			digits = append(digits, i)
		}
	}
	if len(digits) == 0 {
		return nil, ""
	}
	for attempt := 0; attempt < 40; attempt++ {
		b := append([]byte(nil), a...)
		d := digits[t.Choose(len(digits))]
		b[d] = '0' + (b[d]-'0'+1+byte(t.Choose(9)))%10
		pos := start + t.Choose(len(a)-start-4)
		if d >= pos && d < pos+4 {
			continue
		}
		// the window must not swallow a delimiter either
		if bytes.ContainsAny(b[pos:pos+4], "\",\r\n") {
			continue
		}
		if !forgeCRC(b, pos, target) || bytes.ContainsAny(b[pos:pos+4], "\",\r\n") || bytes.Equal(a, b) {
			continue
		}
		sib := f.Clone()
		sib.Tables[ti].Raw = b
		return sib, fmt.Sprintf("%s: same length (%d) and CRC-32 (%08x), digit at offset %d changed, bytes %d-%d solved", f.Tables[ti].Name, len(b), target, d, pos, pos+3)
	}
	return nil, ""
}
