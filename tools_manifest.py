#!/usr/bin/env python3
"""Regenerates MANIFEST.json's checks/engines from the table below and validates it against the schema."""
import json, sys
M='/verif/MANIFEST.json'
m=json.load(open(M))
CHECKS = {
 "C19": dict(engine="dirsim", category="fault_enumeration", design_ref="DESIGN.md §2.5, §4 C19, Appendix C",
   technique="deterministic simulation: disk model + real scratch directory, seeded fault plans between Next() calls, reference-model oracle",
   text="Seeded simulation of the directory source on a real scratch directory driven by a disk model: bad entries of eleven kinds at listing time and vanish/truncate/overwrite/replace faults applied at exact instants between Next() calls (the simulator issues every call through a tee handed to BuildJournal). Oracle: reference model of the source (sorted snapshot, read-time readability) tracked as a set of feasible positions under every bundled parse configuration, journal and CSV equality against the good files alone, sticky end, bounded number of calls; the built command line tool is run as a sub-process on a sample of directories. One run in six enumerates every single-fault placement on its base directory. Sampling of bases, enumeration of placements per base: evidence, not proof.",
   note="Trusted: the harness's disk model, ParseRealtime with fresh options as the oracle for what a good file yields, the OS file system producing ENOENT/EISDIR/ELOOP as modelled. EIO/short reads are not injected."),
 "C14": dict(engine="world", category="exploration", design_ref="DESIGN.md §2.4, §4 C14/C15, Appendix B",
   technique="deterministic simulation: simulated transit world + lossy transport feeding BuildJournal, stepwise reference model on every prefix",
   text="Histories of feeds produced by a simulated world (moving trains, reroutes, skipped/repeated/unknown stops, omissions, assignment flaps, publisher clock faults) or an adversarial list generator, delivered through a transport that drops, duplicates and reorders, parsed by the real ParseRealtime and fed to the real BuildJournal through the GtfsrtSource seam. After every prefix the observed stop list of every trip is checked against the set of lists the property allows given the previous observed list and the applied update.",
   note="Trusted: the reference model (the property text made executable; where the text leaves freedom the model accepts every allowed outcome). The oracle's notion of a feed is the parsed gtfs.Realtime, so parser defects cannot raise journal alarms."),
 "C15": dict(engine="world", category="exploration", design_ref="DESIGN.md §2.4, §4 C14/C15, Appendix B",
   technique="deterministic simulation: same world/transport simulation, reference model of trip accounting and window selection",
   text="Same simulation as C14; the oracle is a stepwise model of trip-level accounting (assignment, applied-update count, last update's identifiers, marked-past = first feed after the last applied update from which the trip was missing, ignore-unassigned rule) plus selection by closed window and assignment, uniqueness and UID order, checked on every prefix and for drawn windows including boundary instants.",
   note="Trusted: the reference model; grouping key (start instant, id minus 6-char prefix) as stated by the property."),
 "C18": dict(engine="sched", category="exploration", design_ref="DESIGN.md §2.3, §4 C18",
   technique="deterministic simulation: seeded cooperative scheduler over caller goroutines + Go race detector with scheduler edges hidden, per-call equality with solo execution (in-process and, for a prefix of the batch, in fresh processes with the opposite call order)",
   text="2-6 caller tasks run ParseRealtime/ParseStatic on shared input buffers and shared option/extension objects as real goroutines of which exactly one is runnable; a seeded scheduler picks who runs at every yield point (extension interface proxy, tagged hooks in csv.NextRow and the realtime entity loops, task-level points, and the sites an AST instrumenter inserts into a scratch copy of /repo's working tree: every declared function's entry and around every synchronisation-like call). The binary is built with -race and the scheduler's own synchronisation is hidden from ThreadSanitizer, so only synchronisation performed by the library orders two tasks. Oracle: no race report; each call's result equals the same call executed alone on fresh objects; the digest of the solo results equals the one fresh processes compute (GOMAXPROCS 1/4/16/2, half of them in the opposite order: sticky process-wide state); shared inputs unchanged.",
   note="Trusted: ThreadSanitizer, the runtime.RaceDisable/Enable bracket around park/resume. Pre-emption only at yield points (the race detector still sees every access)."),
 "C06": dict(engine="history", category="exploration", design_ref="DESIGN.md §4 C06",
   technique="deterministic simulation of call histories on long-lived option/extension objects; refinement against fresh-object reference, in-process repetition, fresh-process digests (also in the opposite call order) and a simulated clock (testing/synctest bubble at several fake instants)",
   text="Seeded histories of 2-10 parse calls on 1-3 long-lived options/extension objects (all bundled extension configurations, corrupt inputs included). Each call's result must equal the parse of the same bytes with a fresh equivalent object, all R in-process repetitions must agree in content and order, fresh child processes at several GOMAXPROCS values, half of them executing the same operations in the opposite order, must produce the same per-operation digests, documented option equivalences (nil timezone = UTC, nil extension = none) must hold, and the input buffer must be unchanged. A sub-check built with the newer Go toolchain parses 600 (thorough: 12 000) further inputs once under the real clock and again inside testing/synctest bubbles whose fake clock stands 24 years before, within hours of, and decades after the timestamps in the input: the results must be identical (the library reads no clock).",
   note="Go map iteration order cannot be seeded: order defects are detected probabilistically per run (inputs carry >= 3 members per map-built collection, R repetitions); state-leak failures replay exactly."),
 "C05": dict(engine="crash", category="exploration", design_ref="DESIGN.md §2.6, §4 C05",
   technique="seeded fault injection on stored bytes, the csv.New reader seam, records and protobuf fields, plus faulted feed sequences into the journal; crash/termination oracle",
   text="Byte faults (truncate, flip, zero, splice; torn stored zip members, bad CRC/method), reader faults at the csv.New seam (chunking, error/EOF at exact offsets, close errors), record faults on a table model of a well-formed static feed, field faults on well-formed realtime messages, under every bundled extension configuration; every accepted result is driven through all accessors, and sequences of parsed feeds through BuildJournal and ExportToCsv. Oracle: recover() around every entry point, cycle pre-check instead of calling Root blindly, per-run watchdog.",
   note="No schedule or clock for the two parse entry points (stated in DESIGN.md); resource exhaustion excluded by the property's own quantifier."),
 "C09": dict(engine="rowfaults", category="fault_enumeration", design_ref="DESIGN.md §4 C09, Appendix A",
   technique="record-level fault injection with a fault-free twin run (differential oracle), single-insertion space enumerated per sampled base feed",
   text="For each sampled well-formed base feed, every single insertion (rejection cause x file x position) of the Appendix A catalogue plus random multi-insertions is parsed next to the fault-free twin; results minus warnings must be equal in every entity, field, link and order, and every row-level warning must name the injected row's file, 1-based number and exact cells.",
   note="Only causes the statement names are injected, in unambiguous spellings (Appendix A). Bases are sampled; the single-insertion space per base is enumerated completely."),
 "C03": dict(engine="refmon", category="exploration", design_ref="DESIGN.md §4 C03",
   technique="safety-invariant monitor (pointer membership, id agreement, forest) over seeded fault-injection campaigns on the stored archive",
   text="Every archive the record/byte fault campaigns produce that ParseStatic accepts is checked: required references non-nil and every reference is the address of an element of the result's own top-level slice whose id is named by the referring row; the parent graph is a forest (bounded walk). Sizes are drawn to cross slice-growth points.",
   note="Id agreement is stated existentially so that duplicate ids cannot cause a false alarm."),
}
order=["C03","C05","C06","C09","C14","C15","C18","C19"]
claimed=[c for c in order if c in sys.argv[1:]] if len(sys.argv)>1 else [c["property_id"] for c in m["checks"]]
m["checks"]=[]
for pid in order:
    if pid not in claimed: continue
    c=CHECKS[pid]
    m["checks"].append({
      "property_id":pid,
      "quick_cmd":f"./check {pid} quick",
      "thorough_cmd":f"./check {pid} thorough",
      "evidence_file":f"/verif/evidence/{pid}.json",
      "replay_cmd_template":"./check replay {path}",
      "engine":c["engine"],
      "level_claimed":{"category":c["category"],"text":c["text"],"design_ref":c["design_ref"]},
      "level_note":c["note"],
      "technique":c["technique"]})
eng={}
for ch in m["checks"]:
    eng.setdefault(ch["engine"],[]).append(ch["property_id"])
m["engines"]=[{"name":k,"path":"/verif/harness/props","serves_properties":v,"kind_free_text":"seeded deterministic simulation / fault injection engine (Go), see DESIGN.md"} for k,v in eng.items()]
json.dump(m,open(M,'w'),indent=1)
import jsonschema
jsonschema.validate(m,json.load(open('/root/.vp/MANIFEST.schema.json')))
print("manifest ok; claimed:",[c["property_id"] for c in m["checks"]])
