#!/usr/bin/env python3
"""Prints the markdown tables of DESIGN.md §10.4 from seeded/*/meta.json and a regress.sh log."""
import json, glob, sys, re
print("| id | property | change (author's title) | needs | first signature reported | note |")
print("|---|---|---|---|---|---|")
for d in sorted(glob.glob('/verif/seeded/*')):
    m = json.load(open(d + '/meta.json'))
    name = d.split('/')[-1]
    prop = name.split('-')[0]
    cr = m.get('check_result', {})
    sigs = []
    for k, v in cr.items():
        if v.get('rc') == 1 and v.get('signatures'):
            sigs.append(v['signatures'][0])
    note = m.get('not_caught') or m.get('initially_missed') or m.get('note') or ''
    note = note[:170] if m.get('not_caught') else ('initially missed: ' + note.split(':',1)[-1].strip()[:140] if m.get('initially_missed') else note[:140])
    needs = (m.get('needs_to_manifest') or '')
    if isinstance(needs, list): needs = '; '.join(map(str, needs))
    print(f"| {name} | {prop} | {str(m.get('title',''))[:110]} | {str(needs)[:160].replace('|','/')} | `{(sigs or ['-'])[0][:90]}` | {note.replace('|','/')} |")
